#!/bin/bash
# hooks.baseline_off_cmd: runs the repository's own test suite with the verif tag OFF and
# compares the set of passing tests with the 48 stable tests of /root/.vp/BASELINE.json.
cd /repo || exit 2
export GOFLAGS=-mod=mod GOPROXY=off GOSUMDB=off GOTOOLCHAIN=local
out=$(mktemp)
go test -json -vet=off -count=1 -timeout 25m ./... > "$out" 2>/dev/null
python3 - "$out" <<'PY'
import json, sys
passed=set()
for line in open(sys.argv[1], errors='replace'):
    try: ev=json.loads(line)
    except Exception: continue
    if ev.get('Action')=='pass' and ev.get('Test'):
        passed.add(ev['Package']+'::'+ev['Test'])
base=json.load(open('/root/.vp/BASELINE.json'))['stable_pass']
missing=[t for t in base if t not in passed]
print(f"baseline tests passing with the guard off: {len(base)-len(missing)}/{len(base)}")
for t in missing: print("MISSING", t)
sys.exit(1 if missing else 0)
PY
rc=$?
rm -f "$out"
exit $rc
