#!/bin/bash
# bin/seedverify.sh <mutant-dir>  — confirms a seeded change in a scratch worktree:
#   applies patch.diff, builds, runs the repository suite (the 48 baseline tests must pass),
#   runs the demonstration (must FAIL), reverts, runs the demonstration again (must PASS).
# meta.json must give demo.file (name inside the mutant dir), demo.copy_to (path inside the module) and demo.command.
set -u
D=$(readlink -f "$1")
export GOFLAGS=-mod=mod GOPROXY=off GOSUMDB=off GOTOOLCHAIN=local
W=/tmp/seedverify.$$; mkdir -p $W
git -C /repo worktree add -q --detach $W/lisp HEAD || exit 2
cleanup() { git -C /repo worktree remove --force $W/lisp 2>/dev/null; rm -rf $W; }
trap cleanup EXIT
cd $W/lisp
FILE=$(jq -r '.demo.file' $D/meta.json); DEST=$(jq -r '.demo.copy_to' $D/meta.json); CMD=$(jq -r '.demo.command' $D/meta.json)
FILE=$(basename "$FILE"); DEST=$(echo "$DEST" | sed -E 's#^/tmp/wt[A-Za-z0-9]*/lisp/##; s#^\./##; s#^lisp/##'); CMD=$(echo "$CMD" | sed -E 's#cd /tmp/wt[A-Za-z0-9]*/lisp *&& *##g; s#export [A-Z=a-z -]*&& *##g')
case "$DEST" in */) DEST="$DEST$FILE";; esac
run_demo() { mkdir -p "$(dirname "$DEST")"; cp "$D/$FILE" "$DEST"; (eval "$CMD") > $W/demo.out 2>&1; rc=$?; rm -f "$DEST"; return $rc; }
echo "== unchanged tree: demo must pass"; if run_demo; then echo "  demo passes on the unchanged tree"; else echo "  DEMO FAILS ON THE UNCHANGED TREE"; tail -15 $W/demo.out; exit 1; fi
git apply "$D/patch.diff" || { echo "PATCH DOES NOT APPLY"; exit 1; }
go build ./... || { echo "DOES NOT COMPILE"; exit 1; }
go test -json -vet=off -count=1 -timeout 25m ./... > $W/tests.json 2>/dev/null
python3 - $W/tests.json <<'PY' || exit 1
import json, sys
passed=set()
for line in open(sys.argv[1], errors='replace'):
    try: ev=json.loads(line)
    except Exception: continue
    if ev.get('Action')=='pass' and ev.get('Test'): passed.add(ev['Package']+'::'+ev['Test'])
base=json.load(open('/root/.vp/BASELINE.json'))['stable_pass']
missing=[t for t in base if t not in passed]
print(f"  baseline tests passing with the change: {len(base)-len(missing)}/{len(base)}")
for t in missing: print("  MISSING", t)
sys.exit(1 if missing else 0)
PY
echo "== changed tree: demo must fail"; if run_demo; then echo "  DEMO PASSES WITH THE CHANGE (not a demonstration)"; exit 1; else echo "  demo fails with the change:"; grep -E -m5 "FAIL|Error|error|panic|---" $W/demo.out | sed 's/^/    /'; fi
echo "CONFIRMED $(basename $(dirname $D))/$(basename $D)"
