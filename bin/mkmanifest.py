#!/usr/bin/env python3
"""Regenerates /verif/MANIFEST.json from the table below (keeps it schema-valid)."""
import json, os, subprocess, sys

VERIF = os.path.dirname(os.path.dirname(os.path.abspath(__file__)))

CHECKS = {
 "C01": dict(technique="reference-interpreter monitor over exhaustive small programs and seeded typed programs (differential, trace-observing)",
             text="Every program in an exhaustively enumerated small grammar and in a seeded family of typed random programs is run on the real EVAL next to an independent reference interpreter; result, error class, ordered trace! effects and final globals must agree. Held on the programs executed, nothing more.",
             note="trusts the harness reference interpreter (refmal) as the reading of the mal guide + README; error message text is not compared", ref="5/C01"),
 "C02": dict(technique="snapshot-invariant monitor after every step (successful or failed) of generated operation histories, incl. boundary indices and binary values + Go race detector on shared-parent derivations",
             text="After every step of generated histories of collection operations every earlier binding is re-read and compared with the snapshot taken when it was bound; a concurrent part derives from shared parents under -race; values seen through closures (captured before a re-binding let, collected over the iterations of a tail loop) must stay what was captured; a catch variable named like an existing binding must not overwrite it.",
             note="canonical comparison by the harness value model; race detector sees only executed interleavings", ref="5/C02"),
 "C03": dict(technique="reference-model monitor for try/catch/finally with identity checks on thrown values and Go errors",
             text="Generated nests of try/catch/finally with non-self-evaluating thrown objects, Go errors returned or panicked by harness builtins; result/error/trace compared with the reference interpreter, errors.Is and ErrorValue checked from Go; thrown objects include nil/false/empty values; builtins registered as plain Go function values fail and panic (also with Go runtime errors) inside try bodies.",
             note="trusts refmal's try semantics written from the property statement", ref="5/C03"),
 "C04": dict(technique="crash sentinel (recover + child-process death attribution) over enumerated malformed ASTs and builtin x argument tuples (incl. JSON/source strings, zero-value collections), failing catch handlers (thrown value kinds x handler tails x contexts), live and cancelled contexts",
             text="Every enumerated malformed special form, builtin call tuple and Go-built AST is evaluated under recover() in a child process, directly, wrapped in try/catch, inside a future and under an already cancelled context; any escaping panic is a violation; function values of 26 provenances (with-meta, reader metadata, eval-built, held in atoms/maps, builtins) are applied in 51 ways (direct, apply, map, swap!, reduce, defmacro+call, macroexpand, future-call, memoize, partial, comp, threading, update).",
             note="recursion bounded by construction; builtins with external effects (readline, slurp of devices, setenv) excluded", ref="5/C04"),
 "C05": dict(technique="crash/hang sentinel over exhaustive token soups, truncated repository sources and hostile random texts through 9 reader entry points, concurrent first readings of fresh names (8 goroutines, compared with reading alone), plus Go's coverage-guided fuzzer on the same entry points",
             text="All token sequences up to a length bound, every truncation of windows of the repository's lisp sources, and seeded hostile texts go through READ/READWithPreamble/Read_str/read-string and PRINT under recover() and a watchdog.",
             note="inputs bounded in size and nesting; hang = no return within 10 s and, run again, within 30 s", ref="5/C05"),
 "C06": dict(technique="relational round-trip monitor with an independent structural comparison (exhaustive short strings + seeded values and accepted texts + coverage-guided fuzzing of strings)",
             text="PRINT then READ (and pr-str/read-string) of exhaustively enumerated short strings over the escaping-relevant alphabet and of seeded nested values must give a canonically equal value; accepted texts must satisfy READ.PRINT.READ = READ; long strings printed in plain mode immediately before, identifiers with non-ASCII letters and digits.",
             note="comparison by the harness value model (canon), never the interpreter's =; three listed known findings", ref="5/C06"),
 "C07": dict(technique="tick-history monitor: cancellation issued from inside the k-th tick!, zero later ticks allowed; bounded wall clock with load canary for blocking builtins",
             text="Looping/recursing/macro-expanding/sleeping/deref-ing programs inside try/catch/finally nests are cancelled at logical instants; the evaluating thread must start no further tick and EVAL must return a timeout error; blocking builtins (also while an earlier evaluation with a longer-lived context waits on the same future or atom) must return within a generous wall bound while the canary is quiet; under natural deadlines the innermost handler of nested tries must produce the value (a missed handler is re-examined with 4x and 16x the deadline).",
             note="logical oracle is exact; wall-clock part uses a 5 s bound against a normal of milliseconds and is discarded when the load canary is late", ref="5/C07"),
 "C08": dict(technique="host-stack-depth invariant monitor (runtime.Callers at the base case for n=3,30,300,3000; also after a stepper was attached, consulted and detached) + 10^6-iteration runs under a reduced stack cap in child processes",
             text="For generated nests of tail-position constructs the Go stack depth seen by a harness builtin must be identical for every iteration count; long loops must complete under a 4 MiB stack cap; loops run under background, deadline and derived contexts; functions may be built by macros, eval or read-string.",
             note="depth measured in frames by runtime.Callers", ref="5/C08"),
 "C09": dict(technique="linearizability checking (porcupine) of client-boundary histories + Go race detector + parked-hook lost-update scenarios + bounded-progress watchdog",
             text="Many short concurrent histories of deref/reset!/swap!/print on shared atoms, recorded at the EVAL boundary with unique written values, are checked against a sequential register model; hooks park a swap! mid-update (also: another writer lands, the parked evaluation is cancelled, the atom must stay usable); all under -race.",
             note="porcupine timeout = inconclusive; race detector sees executed interleavings only", ref="5/C09"),
 "C10": dict(technique="rule-based history checker (R1-R8) over recorded future histories (operations through every handle the language yields for one future) + parked-hook windows + Go race detector",
             text="Histories of deref/done?/cancelled?/cancel against bodies that complete, throw, sleep or ignore cancellation are recorded with timestamps and checked against eight rules; the narrow publication windows are made certain by parking goroutines at hook sites; futures whose creating evaluation context is ended after completion; chains of up to 1000 nested futures; two simultaneous cancels of a running future with hundreds of derived contexts.",
             note="real-time order from one monotonic clock at the client boundary", ref="5/C10"),
 "C11": dict(technique="solo-vs-concurrent relational monitor + Go race detector (incl. futures created in nested scopes of scopes still being written, read-string of fresh names) + atomicity readers on one shared environment",
             text="Generated programs run simultaneously on one preloaded environment under -race; each result must equal its solo result, readers must see globals unbound or complete, locals must never carry another thread's tag; call-local defs must not reach the shared environment; a shared memoized function and 16 simultaneous deep recursions must give their solo results.",
             note="gensym numbering canonicalised", ref="5/C11"),
 "C12": dict(technique="template-substitution model for quasiquote + call/macroexpand relational monitor with trace observation",
             text="Generated templates are evaluated and compared with a substitution computed by the generator; generated macros are called and compared with the evaluation of their macroexpand result (value and trace); library macros are compared with their documented meaning; call sites evaluated repeatedly, stateful expanders, nested quasiquote heads as data, try bodies ending in a macro call.",
             note="substitution model is harness code", ref="5/C12"),
 "C13": dict(technique="reference-model monitor (independent sequence/map/set model, with forbidden results for unspecified calls) over boundary-value argument tuples (empty collections by origin) and random pipelines",
             text="Every listed builtin is called on exhaustive boundary tuples and in random pipelines; value/kind must match the model where it prescribes a value, an error must be returned where the statement prescribes one (duplicate keys in hash-map included).",
             note="model rules in DESIGN.md Appendix A; Unspecified cells accept any non-panicking outcome except results listed as wrong under every reading", ref="5/C13"),
 "C14": dict(technique="independent structural comparison + reflexivity/symmetry/transitivity monitors over an exhaustive small universe and mutated deep pairs, with failing comparisons of functions interleaved (history independence)",
             text="(= a b) through EVAL is compared with the harness's own structural equality for all pairs of an exhaustive universe of small values, triples for transitivity, and random deep pairs built by mutation and by different construction paths (metadata-carrying ones included).",
             note="canon.LispEqual is the oracle", ref="5/C14"),
 "C15": dict(technique="substitution-model monitor: generator-side AST substitution vs READWithPreamble(AddPreamble(src,m)) vs Read_str(src,m)",
             text="Generated sources with placeholders and decoys and generated value maps are transported through AddPreamble/READWithPreamble and compared with an independent substitution done on the generator's AST; placeholders also in hash-map key position, names reused from earlier cases without a value, the name MODULE.",
             note="names over [A-Za-z0-9_-]; values are data", ref="5/C15"),
 "C16": dict(technique="bracket-stack model monitor using the REPL's own classifier through a verif-tagged export + history-independence relation over grown texts (prefixes read in growing order vs read after an unrelated text)",
             text="Every cut point of generated well-formed expressions is classified by a harness stack machine; READ must report the distinguished EOF error naming the innermost closer exactly when the prefix is completable by closers; surplus/mismatched closers and multiple expressions must be rejected with a non-multiline error; six goroutines reading pooled texts concurrently must each get what the text gives alone; the real REPL loop (repl.Execute) is driven with typed multi-line entries with comments on inner lines and must print exactly one correct result per entry.",
             note="uses repl.VerifMultiLine (hook) so that the REPL's own classification is observed", ref="5/C16"),
 "C17": dict(technique="position monitor against generator-known line numbers of planted faults (module names from cursors and from the $MODULE header line)",
             text="Programs with exactly one planted fault are generated with known line spans; any positioned error must name the module of that reading (module names vary, the same text is read under another name first), lie within the top-level form and cover the fault's first line; faults evaluated at macro-expansion time included.",
             note="columns not checked; higher-order builtin re-positioning accepted in both readings", ref="5/C17"),
 "C18": dict(technique="on/off relational monitor with scripted Stepper callbacks (live and already-ended contexts)",
             text="Programs of the C01/C03/C12 generators are run with and without a scripted stepper (constant, alternating and seeded command sequences); result, error class and trace must agree, and the callback must always receive a scope in which the handed symbol resolves; long-running programs (4000-12000 tail calls, deep recursion, try nests) are included.",
             note="single-threaded; stdout of Next is discarded", ref="5/C18"),
 "C19": dict(technique="multi-route relational monitor (text with/without module, position-less AST, re-read print, REPL form by form, do-wrapped, load-file) over layout variants",
             text="The same generated program is delivered through seven routes and several layouts; result, error class, final error text (positions removed) and trace must agree across all of them.",
             note="program value observed through a final trace! on routes whose return value is defined differently", ref="5/C19"),
 "C20": dict(technique="exhaustive contract table with entry monitors on harness-defined Go functions bound through lib/call (10 behaviours incl. five Go runtime panic kinds whose recovered value must stay reachable with errors.Is; override names containing format verbs)",
             text="An enumerated table of signatures x declared bounds x entry points x import-path shapes x argument lists is executed; entry monitors record whether and with what the Go function was entered; results, errors and panics are compared with the contract; function values sharing their code (closures of one literal, method values of one method) registered under one name in several environments must each be the one invoked; four goroutines calling one binding concurrently must each see their own arguments and context.",
             note="signatures written out in the harness; declarations the binder rejects by design are excluded", ref="5/C20"),
}

def built():
    out = subprocess.run([os.path.join(VERIF, ".work/bin/vcheck"), "list"], capture_output=True, text=True)
    return set(out.stdout.split())

def main():
    have = built() if os.path.exists(os.path.join(VERIF, ".work/bin/vcheck")) else set()
    force = os.environ.get("MANIFEST_CLAIM")
    if force:
        have = set(force.split(","))
    checks, na = [], []
    for pid in sorted(CHECKS):
        c = CHECKS[pid]
        if pid in have:
            checks.append({
                "property_id": pid,
                "quick_cmd": f"./check {pid} quick",
                "thorough_cmd": f"./check {pid} thorough",
                "evidence_file": f"/verif/evidence/{pid}.json",
                "replay_cmd_template": f"./check {pid} --replay {{path}}",
                "engine": "vcheck",
                "level_claimed": {"category": "exploration", "text": c["text"], "design_ref": "DESIGN.md §" + c["ref"]},
                "level_note": c["note"],
                "technique": c["technique"],
            })
        else:
            na.append({"property_id": pid, "reason": "no check registered in this revision of the harness (runtime monitoring applies; see DESIGN.md §5)"})
    m = {
        "version": 1,
        "setup_cmd": "bin/setup.sh",
        "hooks": {
            "guard": "verif",
            "enable": "go build -tags verif (the harness module replaces github.com/jig/lisp by /repo, so every check rebuilds jig/lisp from the working tree with the tag on)",
            "baseline_off_cmd": "bin/baseline_off.sh",
            "source_commits": [l.strip() for l in open(os.path.join(VERIF, "hooks_commits.txt")).read().split() if l.strip()] if os.path.exists(os.path.join(VERIF, "hooks_commits.txt")) else [],
            "add_only": True,
        },
        "engines": [{"name": "vcheck", "path": "/verif/harness", "serves_properties": sorted(have & set(CHECKS)),
                     "kind_free_text": "Go driver/worker harness: sharded child processes run seeded workloads against jig/lisp built from /repo with -tags verif (and -race where needed); monitors record events and an oracle per property decides"}],
        "checks": checks,
        "not_applicable": na,
        "notes": "All checks: ./check <Cnn> <quick|thorough>; VERIF_SEED selects the PRNG seed. Known findings: known_findings.json. Seeded breaking changes: seeded/.",
    }
    with open(os.path.join(VERIF, "MANIFEST.json"), "w") as f:
        json.dump(m, f, indent=1)
        f.write("\n")
    print("claimed:", sorted(have & set(CHECKS)))

if __name__ == "__main__":
    main()
