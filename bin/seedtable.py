#!/usr/bin/env python3
"""Prints the seeded-changes table for DESIGN.md §13 from seeded/*/meta.json and result.json."""
import json, glob, os
rows=[]
for d in sorted(glob.glob('/verif/seeded/*')):
    if not os.path.exists(d+'/meta.json'): continue
    m=json.load(open(d+'/meta.json'))
    r=json.load(open(d+'/result.json')) if os.path.exists(d+'/result.json') else {}
    name=os.path.basename(d)
    summ=(m.get('summary') or '').replace('\n',' ').replace('|','/')
    if len(summ)>190: summ=summ[:187]+'…'
    keys=(r.get('witness_keys') or '').replace('witness[','').replace(']','').strip().split(' ')
    keys=[k for k in keys if k][:2]
    note=m.get('verif_note','')
    caught = 'not detected (by design: '+note+')' if m.get('out_of_statement') else ('`./check %s quick`: %s' % (name.split('-')[0], ', '.join('`%s`'%k for k in keys)))
    if m.get('open_gap'): caught = '**not detected** (open gap, no time left to answer it: ' + m['open_gap'] + ')'
    if m.get('initially_missed'): caught += ' — initially missed; ' + m['initially_missed']
    rows.append('| %s | %s | %s |' % (name, summ, caught))
print('| Seeded change | What it does | Caught by |\n|---|---|---|')
print('\n'.join(rows))
