#!/bin/bash
# setup_cmd: builds the harness binaries (normal and -race) from files on disk only; warms the Go build cache.
set -e
cd "$(dirname "$0")/.."
export GOFLAGS=-mod=mod GOPROXY=off GOSUMDB=off GOTOOLCHAIN=local
mkdir -p .work/bin evidence replays
cd harness
go build -tags verif -o ../.work/bin/vcheck ./cmd/vcheck
go build -tags verif -race -o ../.work/bin/vcheck-race ./cmd/vcheck
echo "setup ok: $(../.work/bin/vcheck list | tr '\n' ' ')"
