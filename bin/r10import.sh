#!/bin/bash
# bin/r8import.sh <Cnn>: imports a round-8 sub-agent's changes (/tmp/wt10<Cnn>/out/{A,B}) as seeded/<Cnn>-m<next>,
# removes the agent's worktree, then confirms each and runs the property's quick check against it (bin/seedall.sh).
id=$1; cd /verif
names=""
for v in A; do
  src=/tmp/wt10$id/out/$v
  [ -f $src/patch.diff ] && [ -f $src/meta.json ] && [ -f $src/demo_test.go ] || { echo "$id/$v: incomplete"; continue; }
  n=1; while [ -e seeded/$id-m$n ]; do n=$((n+1)); done
  mkdir -p /tmp/r8imp.$$; cp $src/patch.diff $src/meta.json $src/demo_test.go /tmp/r8imp.$$/
  python3 bin/seedimport.py /tmp/r8imp.$$ $id-m$n >/dev/null; rm -rf /tmp/r8imp.$$
  python3 - seeded/$id-m$n/meta.json <<'PY'
import json,sys
m=json.load(open(sys.argv[1])); m['round']="10 (property text, titles of earlier changes to avoid and scratch worktree only)"
json.dump(m,open(sys.argv[1],'w'),indent=1,ensure_ascii=False)
PY
  names="$names seeded/$id-m$n"
done
git -C /repo worktree remove --force /tmp/wt10$id/lisp 2>/dev/null; rm -rf /tmp/wt10$id
[ -n "$names" ] && bin/seedall.sh quick $names
