#!/bin/bash
# bin/seedrun.sh <patch.diff> <Cnn> [tier] [more Cnn…] — applies a seeded change to /repo, runs the check(s), undoes it.
P=$(readlink -f "$1"); shift
TIER=quick
cd /repo && git diff --quiet || { echo "/repo has uncommitted changes"; exit 2; }
git apply "$P" || exit 2
trap 'git -C /repo checkout -- . ; git -C /repo clean -fdq' EXIT
cd /verif
for a in "$@"; do
  case $a in quick|thorough) TIER=$a;; esac
done
for a in "$@"; do
  case $a in quick|thorough) continue;; esac
  echo "### $a $TIER"; ./check $a $TIER 2>&1 | grep -E "^VIOLATION|SUMMARY|witness|INCONCL|BROKEN" | cut -c1-260 | head -12
done
