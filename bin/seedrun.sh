#!/bin/bash
# bin/seedrun.sh <patch.diff> <Cnn> [tier] [more Cnn…] — runs check(s) against a scratch worktree of /repo with the
# seeded change applied (VERIF_REPO_DIR); /repo itself, the evidence files and the work dirs of real runs are untouched.
P=$(readlink -f "$1"); shift
TIER=quick
W=/tmp/seedrun.$$; mkdir -p $W
git -C /repo worktree add -q --detach $W/lisp HEAD || exit 2
trap 'git -C /repo worktree remove --force $W/lisp 2>/dev/null; rm -rf $W ${VROOT:-/verif}/.work/*-alt$$ ${VROOT:-/verif}/.work/*-evidence-alt$$.json ${VROOT:-/verif}/.work/alt-*.mod ${VROOT:-/verif}/.work/alt-*.sum ${VROOT:-/verif}/.work/bin/vcheck*-alt-*' EXIT
git -C $W/lisp apply "$P" || exit 2
export VERIF_REPO_DIR=$W/lisp VERIF_WORK_SUFFIX=-alt$$
cd ${VROOT:-/verif}
for a in "$@"; do case $a in quick|thorough) TIER=$a;; esac; done
for a in "$@"; do
  case $a in quick|thorough) continue;; esac
  echo "### $a $TIER"; ./check $a $TIER 2>&1 | grep -a -E "^VIOLATION|SUMMARY|witness|INCONCL|BROKEN" | cut -c1-260 | head -12
done
