#!/bin/bash
# bin/seedall.sh [tier] [dir…]: for every seeded change: confirm it, then run its property's check against it.
TIER=${1:-quick}; shift
cd ${VROOT:-/verif}
DIRS=${@:-seeded/*}
for d in $DIRS; do
  [ -f $d/patch.diff ] || continue
  p=$(basename $d | cut -d- -f1)
  if [ -n "${SKIP_VERIFY:-}" ] && [ "$(jq -r .confirmation $d/result.json 2>/dev/null)" = "confirmed" ]; then v="CONFIRMED (earlier run)"; else v=$(bin/seedverify.sh $d 2>&1 | tail -1); fi
  case "$v" in CONFIRMED*) conf=confirmed;; *) conf="NOT-CONFIRMED($v)";; esac
  out=$(bin/seedrun.sh $d/patch.diff $p $TIER 2>&1)
  nv=$(echo "$out" | grep -c "^VIOLATION")
  keys=$(echo "$out" | grep -o "witness\[[^]]*\]" | head -3 | tr '\n' ' ')
  echo "$(basename $d) $conf check=$p/$TIER violations=$nv $keys"
  jq -n --arg conf "$conf" --arg check "./check $p $TIER" --argjson nv "$nv" --arg keys "$keys" \
     '{confirmed_by: "bin/seedverify.sh (scratch worktree: patch applies, builds, 48 baseline tests pass, demo passes without and fails with the change)", confirmation: $conf, ran: ("bin/seedrun.sh patch.diff: " + $check + " against a scratch worktree with the change applied"), violations_reported: $nv, witness_keys: $keys}' > $d/result.json
done
