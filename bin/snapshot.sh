#!/bin/bash
# bin/snapshot.sh <dir>: copies the harness (no .work, no .git, no seeded) to <dir> so that a long background run
# (seeded or benign sweeps) is not disturbed by edits in /verif. Use with VROOT=<dir>. Development aid only.
D=${1:?dir}; mkdir -p $D
rsync -a --delete --exclude .work --exclude .git --exclude seeded --exclude replays --exclude evidence /verif/ $D/
mkdir -p $D/evidence $D/replays
echo "snapshot in $D"
