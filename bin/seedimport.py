#!/usr/bin/env python3
"""bin/seedimport.py <agent-mutant-dir> <name>: copies a sub-agent's mutant into /verif/seeded/<name> and normalises meta.json."""
import json, os, shutil, sys, re
src, name = sys.argv[1], sys.argv[2]
dst = os.path.join('/verif/seeded', name)
shutil.rmtree(dst, ignore_errors=True)
shutil.copytree(src, dst)
m = json.load(open(os.path.join(dst, 'meta.json')))
cmd = m.get('demo', {}).get('command', '')
race = ' -race' if '-race' in cmd else ''
extra = ''
mt = re.search(r'-timeout[ =](\S+)', cmd)
if mt: extra += ' -timeout ' + mt.group(1)
m['original_demo'] = m.get('demo')
m['demo'] = {"file": "demo_test.go", "copy_to": "seeddemo/demo_test.go", "command": "go test -vet=off%s -count=1%s ./seeddemo/" % (race, extra)}
m['property'] = name.split('-')[0] if not m.get('property') else m['property']
json.dump(m, open(os.path.join(dst, 'meta.json'), 'w'), indent=1, ensure_ascii=False)
print(dst, m['demo']['command'])
