#!/bin/bash
# validates MANIFEST.json and every evidence file against the schemas in /root/.vp
python3-vt - <<'PY'
import json, glob, jsonschema, sys
ok=True
try:
    jsonschema.validate(json.load(open('/verif/MANIFEST.json')), json.load(open('/root/.vp/MANIFEST.schema.json'))); print('MANIFEST valid')
except Exception as e:
    ok=False; print('MANIFEST INVALID', str(e)[:500])
es=json.load(open('/root/.vp/EVIDENCE.schema.json'))
for f in sorted(glob.glob('/verif/evidence/*.json')):
    try:
        jsonschema.validate(json.load(open(f)), es); print(f, 'valid')
    except Exception as e:
        ok=False; print(f, 'INVALID', str(e)[:500])
sys.exit(0 if ok else 1)
PY
