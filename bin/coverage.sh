#!/bin/bash
# bin/coverage.sh [tier] [Cnn…] — development aid: runs the checks with a coverage-instrumented worker and reports which
# statements of jig/lisp (non-test, non-verif-hook) no workload reached. Evidence files and real work dirs are untouched.
# Output: /verif/.work/coverage/{profile.txt,func.txt,uncovered.txt}
set -u
export GOFLAGS=-mod=mod GOPROXY=off GOSUMDB=off GOTOOLCHAIN=local
TIER=${1:-quick}; shift || true
IDS=${*:-$(seq -f 'C%02g' 1 20)}
cd /verif
OUT=/verif/.work/coverage; rm -rf $OUT; mkdir -p $OUT/raw
export VERIF_COVER=1 GOCOVERDIR=$OUT/raw VERIF_WORK_SUFFIX=-cov
for id in $IDS; do
  echo "### $id $TIER"; ./check $id $TIER 2>&1 | grep -a -E "^VIOLATION|SUMMARY|INCONCL|BROKEN" | cut -c1-200
done
# race workers count in atomic mode, the others in set mode: one profile per build (meta-data hash), merged below
mkdir -p $OUT/prof
for m in $(ls $OUT/raw | grep '^covmeta\.' | sed 's/covmeta\.//'); do
  mkdir -p $OUT/split/$m; ln -f $OUT/raw/covmeta.$m $OUT/split/$m/; ln -f $OUT/raw/covcounters.$m.* $OUT/split/$m/ 2>/dev/null
  (cd harness && go tool covdata textfmt -i=$OUT/split/$m -o $OUT/prof/$m.txt)
done
cat $OUT/prof/*.txt | grep -v -E "^verifharness|^github.com/jig/lisp/[^:]*verif[^:]*\.go" > $OUT/profile.f.txt
python3 - $OUT/profile.f.txt > $OUT/uncovered.txt <<'PY'
import sys, collections
cov=collections.defaultdict(int); stm={}
for l in open(sys.argv[1]):
    if l.startswith('mode:'): continue
    loc, n, c = l.rsplit(' ', 2)
    cov[loc]+=int(c); stm[loc]=int(n)
byf=collections.defaultdict(lambda:[0,0,[]])
for loc,c in cov.items():
    f,r=loc.split(':'); e=byf[f]; e[0]+=stm[loc]
    if c: e[1]+=stm[loc]
    else: e[2].append(r)
tot=sum(e[0] for e in byf.values()); hit=sum(e[1] for e in byf.values())
print(f"TOTAL statements {tot} reached {hit} ({100*hit/tot:.1f}%)")
for f,e in sorted(byf.items()):
    print(f"{f}: {e[1]}/{e[0]} ({100*e[1]/max(e[0],1):.0f}%)")
    for r in sorted(e[2], key=lambda r:(int(r.split('.')[0]))): print("   unreached", r)
PY
rm -rf /verif/.work/*-cov /verif/.work/*-evidence-cov.json
head -1 $OUT/uncovered.txt
