#!/usr/bin/env python3
"""Rewrites DESIGN.md §13 (between the markers) from seeded/*/meta.json + result.json."""
import subprocess, re, json, glob, os
table = subprocess.run(['/verif/bin/seedtable.py'], capture_output=True, text=True).stdout
n = len(glob.glob('/verif/seeded/*/patch.diff'))
missed = sum(1 for f in glob.glob('/verif/seeded/*/meta.json') if json.load(open(f)).get('initially_missed'))
oos = sum(1 for f in glob.glob('/verif/seeded/*/meta.json') if json.load(open(f)).get('out_of_statement'))
gaps = sum(1 for f in glob.glob('/verif/seeded/*/meta.json') if json.load(open(f)).get('open_gap'))
def _round(f):
    return str(json.load(open(f)).get('round', '')).split(' ')[0]
r8 = [f for f in glob.glob('/verif/seeded/*/meta.json') if _round(f) == '8']
r9 = [f for f in glob.glob('/verif/seeded/*/meta.json') if _round(f) == '9']
m8 = sum(1 for f in r8 if json.load(open(f)).get('initially_missed'))
m9 = sum(1 for f in r9 if json.load(open(f)).get('initially_missed'))
r10 = [f for f in glob.glob('/verif/seeded/*/meta.json') if _round(f) == '10']
m10 = sum(1 for f in r10 if json.load(open(f)).get('initially_missed') or json.load(open(f)).get('open_gap'))
rounds = 'ten' if r10 else ('nine' if r9 else 'eight')
later = (f"Round 8 (a later session; two changes per property, the brief of this task only: property text and scratch worktree, "
         f"no list of earlier changes; asked for changes that need an interleaving, a fault, a multi-step history, an unusual input or two "
         f"cooperating sites): {m8} of {len(r8)} missed at first. ")
if r9:
    later += (f"Round 9 (one change for each of the ten properties with the most misses so far, told the titles of the earlier changes "
              f"for that property to keep away from): {m9} of {len(r9)} missed at first. ")
if r10:
    later += (f"Round 10 (one change for each of the other properties, same brief as round 9, started in the last hour of the session): "
              f"{m10} of {len(r10)} missed at first. ")
text = f'''<!-- SEEDED-BEGIN -->
## 13. Seeded breaking changes and the checks that catch them

{n} changes to jig/lisp were written by fresh sub-agents that saw only the text of one property and a
scratch worktree (nothing from /verif), in {rounds} rounds. Rounds 2–4 were told what earlier rounds had produced so as
not to repeat it; round 3 was asked for changes needing a conjunction of rare conditions; in round 4 the agents for
the sequential properties (C01–C06, C12–C20) were additionally told, in prose, which workload families the checks
already generate and asked to aim outside them (an adversarial round: it can only lower the detection rate; the
agents for C07–C11 in that round got no such description); round 5 went back to the plain brief (property text, scratch
worktree, the earlier changes for that property to keep away from) and asked for two subtle changes per property:
18 of its 40 were missed by the checks as they stood, and 20 of the 40 of round 6 (same brief, told to keep away from
everything earlier): the plain brief finds more gaps than the adversarial one did. Round 7 (one change per property, same brief): 11 of 20
missed at first, one of them (C17-m11) outside its statement. {later}Every change compiles, passes the 48 baseline tests and comes with a demonstration that
fails with it and passes without; each was confirmed with `bin/seedverify.sh` in a scratch worktree, then the
property's check was run against a scratch worktree with the change applied (`bin/seedrun.sh`, /repo untouched).
`seeded/<id>/` holds patch.diff, demo_test.go, meta.json (what it breaks, what it needs to manifest, how to run the
demonstration) and result.json (what was run, the witness keys reported).

Outcome: {n - oos - gaps} of {n} are reported by the quick tier of their property's check. {missed} of them were missed when
first tried; each miss was answered by more observability or workload (never by loosening an oracle) and is marked
below. {oos} changes are not violations of their statements as worded and are deliberately not reported; {gaps} are violations the checks do not report yet (open gaps, marked below).

{table}
<!-- SEEDED-END -->'''
p = '/verif/DESIGN.md'
s = open(p).read()
if '<!-- SEEDED-BEGIN -->' in s:
    s = re.sub(r'<!-- SEEDED-BEGIN -->.*<!-- SEEDED-END -->', lambda m: text, s, flags=re.S)
else:
    s = s.rstrip('\n') + '\n\n' + text + '\n'
open(p, 'w').write(s)
print('section 13 written:', n, 'changes')
