#!/bin/bash
# bin/benignall.sh <out.log> <patch.diff>…: runs every quick check against scratch worktrees with each property-preserving
# change applied; any VIOLATION line is a false alarm to be analysed. Honours VROOT (see snapshot.sh).
OUT=$1; shift
V=${VROOT:-/verif}
: > $OUT
for p in "$@"; do
  echo "##### $p" >> $OUT
  $V/bin/seedrun.sh $p C01 C02 C03 C04 C05 C06 C07 C08 C09 C10 C11 C12 C13 C14 C15 C16 C17 C18 C19 C20 quick >> $OUT 2>&1
done
echo "##### END" >> $OUT
