// Coverage-guided extension of C06: strings chosen by go's fuzzer are round-tripped alone, as map key,
// as set member and inside a vector, through PRINT/READ; comparison by the harness's own value model.
package fuzz

import (
	"strings"
	"testing"
	"unicode/utf8"

	"github.com/jig/lisp"

	"verifharness/canon"
)

func FuzzRoundTrip(f *testing.F) {
	for _, s := range []string{"", "a", "a\"b", "a\\", "\\\"", "\n", "a\r\nb", "¬", "¬¬", "{\"a\": 1}", "{\"a¬\":\n 1}", "{\"", "}", "aʞb", "\\n", "\\\\n", "tab\there", ";; $x 1", "«»", "😀", " ", "{\"x\"} "} {
		f.Add(s)
	}
	f.Fuzz(func(t *testing.T, s string) {
		if len(s) > 512 || !utf8.ValidString(s) || strings.Contains(s, "\x00") || strings.HasPrefix(s, canon.Marker) {
			return // outside the statement's domain (see DESIGN.md C06)
		}
		for _, v := range []*canon.Node{
			canon.St(s),
			canon.Ve(canon.St(s), canon.In(1), canon.St(s)),
			canon.Ma(map[string]*canon.Node{s: canon.St(s)}),
			canon.Se(s),
			canon.Li(canon.Ma(map[string]*canon.Node{canon.Marker + "k": canon.Ve(canon.St(s))})),
		} {
			printed := lisp.PRINT(canon.ToGo(v))
			back, err := lisp.READ(printed, nil, nil)
			if err != nil {
				t.Fatalf("READ rejects the printed form %q of %s: %v", printed, canon.Render(v), err)
			}
			if !canon.Equal(canon.FromGo(back), v) {
				t.Fatalf("round trip changed %s: printed %q, read back %s", canon.Render(v), printed, canon.Render(canon.FromGo(back)))
			}
		}
	})
}
