// Coverage-guided extension of C05 (thorough tier): go's native fuzzer drives the reader entry points;
// the oracle is the same crash/hang sentinel (a panic or a 20 s stall fails the fuzz target).
package fuzz

import (
	"context"
	"os"
	"path/filepath"
	"strings"
	"testing"
	"time"

	"github.com/jig/lisp"
	"github.com/jig/lisp/reader"
	"github.com/jig/lisp/types"

	"verifharness/hx"
)

var env = hx.NewStdEnv()

func matrix(s string) {
	filled := &types.HashMap{Val: map[string]types.MalType{"$x": 7, "$1": types.List{Val: []types.MalType{1, 2}}}}
	calls := []func() (types.MalType, error){
		func() (types.MalType, error) { return lisp.READ(s, nil, nil) },
		func() (types.MalType, error) { return lisp.READ(s, types.NewCursorFile("f.lisp"), env) },
		func() (types.MalType, error) { return lisp.READWithPreamble(s, nil, nil) },
		func() (types.MalType, error) { return lisp.READWithPreamble(s, types.NewCursorFile("f.lisp"), env) },
		func() (types.MalType, error) { return reader.Read_str(s, nil, &types.HashMap{}) },
		func() (types.MalType, error) { return reader.Read_str(s, nil, filled, env) },
		func() (types.MalType, error) {
			return lisp.EVAL(context.Background(), types.List{Val: []types.MalType{types.Symbol{Val: "read-string"}, s}}, env)
		},
	}
	for _, c := range calls {
		if ast, err := c(); err == nil {
			_ = lisp.PRINT(ast)
		}
	}
}

func FuzzRead(f *testing.F) {
	filepath.Walk("/repo", func(path string, info os.FileInfo, err error) error {
		if err == nil && !info.IsDir() && (strings.HasSuffix(path, ".lisp") || strings.HasSuffix(path, ".mal")) && info.Size() < 3000 {
			if b, e := os.ReadFile(path); e == nil {
				f.Add(string(b))
			}
		}
		return nil
	})
	for _, s := range []string{"(", "'", "$x", "«go-error \"x\"»", ";; $a 1\n\n$a", "¬a¬¬b¬", "{\"a\" 1}", "#{:a}", "^{:a 1} [1]", "`(~a ~@b)", "\"a\\\\\\\"b\\n\"", ";; $MODULE m\n(a)"} {
		f.Add(s)
	}
	f.Fuzz(func(t *testing.T, s string) {
		if len(s) > 4096 {
			return
		}
		done := make(chan struct{})
		go func() { defer close(done); matrix(s) }()
		select {
		case <-done:
		case <-time.After(20 * time.Second):
			t.Fatalf("reader did not return within 20 s")
		}
	})
}
