// Package colmodel is the independent model of the sequence / hash-map / set builtins
// (DESIGN.md Appendix A). It is written from the README and the step files (tests/step*.mal),
// over canon.Nodes, and shares no code with jig/lisp.
//
// Every rule yields one of three outcomes:
//
//	Value(v)     the documents prescribe this value (kind included)
//	Error        the statement prescribes an error (wrong kind, index out of range, odd key/value count)
//	Unspecified  the documents are silent or contradictory: any non-panicking outcome is accepted
package colmodel

import (
	"sort"
	"unicode/utf8"

	. "verifharness/canon"
)

type OKind int

const (
	Value OKind = iota
	Error
	Unspecified
)

type Outcome struct {
	K         OKind
	V         *Node
	Unordered bool // V is a list/vector whose order is not prescribed (keys, vals, seq/vec of a set)
	Why       string
	Payload   any     // set by model functions that fail: carried through unchanged (e.g. a reference-interpreter error)
	Forbid    []*Node // with K == Unspecified: results that are wrong whatever reading of the documentation is taken
}

func val(v *Node) Outcome       { return Outcome{K: Value, V: v} }
func unord(v *Node) Outcome     { return Outcome{K: Value, V: v, Unordered: true} }
func errO(why string) Outcome   { return Outcome{K: Error, Why: why} }
func unspec(why string) Outcome { return Outcome{K: Unspecified, Why: why} }

// Fn is a model function value (payload of an Opaque node).
type Fn func(args []*Node) Outcome

func FnNode(name string, f Fn) *Node { return &Node{K: Opaque, S: "fn", X: f} }

func isSeq(n *Node) bool    { return n.K == List || n.K == Vec }
func isScalar(n *Node) bool { return n.K == Int || n.K == Bool || n.K == Sym || n.K == Opaque }
func isKey(n *Node) bool    { return n.K == Str || n.K == Kw }

func key(n *Node) string { k, _ := RawKey(n); return k }

func copyMap(m map[string]*Node) map[string]*Node {
	o := make(map[string]*Node, len(m))
	for k, v := range m {
		o[k] = v
	}
	return o
}

func copySet(m map[string]bool) map[string]bool {
	o := make(map[string]bool, len(m))
	for k := range m {
		o[k] = true
	}
	return o
}

func setMembers(n *Node) []*Node {
	ks := make([]string, 0, len(n.Mem))
	for k := range n.Mem {
		ks = append(ks, k)
	}
	sort.Strings(ks)
	out := make([]*Node, len(ks))
	for i, k := range ks {
		out[i] = KeyNode(k)
	}
	return out
}

func applyFn(f *Node, args []*Node) Outcome {
	if f.K != Opaque {
		return errO("not a function")
	}
	fn, ok := f.X.(Fn)
	if !ok {
		return unspec("unknown function object")
	}
	return fn(args)
}

// Names lists the modelled builtins.
var Names = []string{"list", "vector", "hash-map", "hash-set", "set", "range", "vec", "cons", "concat", "nth", "first", "rest", "count", "empty?",
	"conj", "seq", "map", "apply", "take", "take-last", "drop", "drop-last", "subvec", "assoc", "dissoc", "get", "contains?", "keys", "vals", "merge",
	"rename-keys", "get-in", "assoc-in", "update", "update-in",
	"nil?", "true?", "false?", "symbol?", "keyword?", "string?", "number?", "list?", "vector?", "map?", "set?", "sequential?"}

// Call is the model of (name args…).
func Call(name string, a []*Node) Outcome {
	switch name {
	case "list":
		return val(Li(a...))
	case "vector":
		return val(Ve(a...))
	case "hash-map":
		if len(a) == 0 {
			return val(Ma(nil))
		}
		if len(a) == 1 {
			return unspec("hash-map with one argument is the Go-object conversion")
		}
		if len(a)%2 == 1 {
			return errO("odd number of key/value arguments")
		}
		m := map[string]*Node{}
		for i := 0; i < len(a); i += 2 {
			if !isKey(a[i]) {
				return errO("non-string key")
			}
			m[key(a[i])] = a[i+1]
		}
		return val(Ma(m))
	case "hash-set":
		m := map[string]bool{}
		for _, e := range a {
			if !isKey(e) {
				return errO("set members must be strings or keywords")
			}
			m[key(e)] = true
		}
		return val(&Node{K: Set, Mem: m})
	case "set":
		if len(a) != 1 {
			return errO("arity")
		}
		switch {
		case a[0].K == Nil:
			return val(Se())
		case isSeq(a[0]):
			m := map[string]bool{}
			for _, e := range a[0].L {
				if !isKey(e) {
					return errO("set members must be strings or keywords")
				}
				m[key(e)] = true
			}
			return val(&Node{K: Set, Mem: m})
		case isScalar(a[0]):
			return errO("set of a scalar")
		}
		return unspec("set of map/set/string")
	case "range":
		if len(a) != 2 {
			return errO("arity")
		}
		if a[0].K != Int || a[1].K != Int {
			return errO("range of non-integers")
		}
		if a[1].I-a[0].I > 100000 {
			return unspec("huge range")
		}
		l := []*Node{}
		for i := a[0].I; i < a[1].I; i++ {
			l = append(l, In(i))
		}
		return val(Ve(l...))
	case "vec":
		if len(a) != 1 {
			return errO("arity")
		}
		switch {
		case isSeq(a[0]):
			return val(Ve(a[0].L...))
		case a[0].K == Set:
			return unord(Ve(setMembers(a[0])...))
		case isScalar(a[0]):
			return errO("vec of a scalar")
		}
		return unspec("vec of nil/map/string")
	case "cons":
		if len(a) != 2 {
			return errO("arity")
		}
		switch {
		case isSeq(a[1]):
			return val(Li(append([]*Node{a[0]}, a[1].L...)...))
		case isScalar(a[1]):
			return errO("cons onto a scalar")
		}
		return unspec("cons onto nil/string/map/set")
	case "concat":
		out := []*Node{}
		sawUnspec := false
		for _, s := range a {
			switch {
			case isSeq(s):
				out = append(out, s.L...)
			case isScalar(s):
				return errO("concat of a scalar")
			default:
				sawUnspec = true
			}
		}
		if sawUnspec {
			return unspec("concat of nil/string/map/set")
		}
		return val(Li(out...))
	case "nth":
		if len(a) != 2 {
			return errO("arity")
		}
		switch {
		case isSeq(a[0]):
			if a[1].K != Int {
				return errO("non-integer index")
			}
			if a[1].I < 0 || a[1].I >= len(a[0].L) {
				return errO("index out of range")
			}
			return val(a[0].L[a[1].I])
		case isScalar(a[0]):
			return errO("nth of a scalar")
		}
		return unspec("nth of nil/string/map/set")
	case "first", "rest":
		if len(a) != 1 {
			return errO("arity")
		}
		switch {
		case a[0].K == Nil || (isSeq(a[0]) && len(a[0].L) == 0):
			if name == "first" {
				return val(N())
			}
			return val(Li())
		case isSeq(a[0]):
			if name == "first" {
				return val(a[0].L[0])
			}
			return val(Li(a[0].L[1:]...))
		case isScalar(a[0]):
			return errO(name + " of a scalar")
		}
		return unspec(name + " of string/map/set")
	case "count", "empty?":
		if len(a) != 1 {
			return errO("arity")
		}
		n := -1
		switch a[0].K {
		case Nil:
			n = 0
		case List, Vec:
			n = len(a[0].L)
		case Map:
			n = len(a[0].M)
		case Set:
			n = len(a[0].Mem)
		case Str, Kw:
			return unspec(name + " of a string")
		default:
			return errO(name + " of a scalar")
		}
		if name == "count" {
			return val(In(n))
		}
		return val(Bo(n == 0))
	case "conj":
		if len(a) < 2 {
			return unspec("conj with fewer than two arguments")
		}
		switch a[0].K {
		case List:
			out := []*Node{}
			for i := len(a) - 1; i >= 1; i-- {
				out = append(out, a[i])
			}
			return val(Li(append(out, a[0].L...)...))
		case Vec:
			return val(Ve(append(append([]*Node{}, a[0].L...), a[1:]...)...))
		case Map:
			if len(a)%2 != 1 {
				return errO("odd key/value count")
			}
			m := copyMap(a[0].M)
			for i := 1; i < len(a); i += 2 {
				if !isKey(a[i]) {
					return errO("non-string key")
				}
				m[key(a[i])] = a[i+1]
			}
			return val(Ma(m))
		case Set:
			m := copySet(a[0].Mem)
			for _, e := range a[1:] {
				if !isKey(e) {
					return errO("non-string member")
				}
				m[key(e)] = true
			}
			return val(&Node{K: Set, Mem: m})
		case Nil:
			return unspec("conj onto nil")
		case Str, Kw:
			return unspec("conj onto a string")
		}
		return errO("conj onto a scalar")
	case "seq":
		if len(a) != 1 {
			return errO("arity")
		}
		switch a[0].K {
		case Nil:
			return val(N())
		case List, Vec:
			if len(a[0].L) == 0 {
				return val(N())
			}
			return val(Li(a[0].L...))
		case Str:
			if a[0].S == "" {
				return val(N())
			}
			if !utf8.ValidString(a[0].S) {
				return unspec("invalid utf-8")
			}
			l := []*Node{}
			for _, r := range a[0].S {
				l = append(l, St(string(r)))
			}
			return val(Li(l...))
		case Set:
			return unord(Li(setMembers(a[0])...))
		case Map, Kw:
			return unspec("seq of a map/keyword")
		}
		return errO("seq of a scalar")
	case "map":
		if len(a) != 2 {
			return errO("arity")
		}
		switch {
		case isSeq(a[1]):
			out := []*Node{}
			for _, e := range a[1].L {
				o := applyFn(a[0], []*Node{e})
				if o.K != Value {
					return o
				}
				out = append(out, o.V)
			}
			return val(Li(out...))
		case isScalar(a[1]):
			return errO("map over a scalar")
		}
		return unspec("map over nil/set/map/string")
	case "apply":
		if len(a) < 2 {
			return errO("apply needs a function and a sequence")
		}
		last := a[len(a)-1]
		switch {
		case isSeq(last):
			return applyFn(a[0], append(append([]*Node{}, a[1:len(a)-1]...), last.L...))
		case last.K == Nil:
			return unspec("apply with nil")
		case isScalar(last):
			return errO("apply with a scalar last argument")
		}
		return unspec("apply with string/map/set last argument")
	case "take", "drop", "drop-last", "take-last":
		if len(a) != 2 {
			return errO("arity")
		}
		if a[0].K != Int {
			return errO("non-integer count")
		}
		n := a[0].I
		if n < 0 {
			n = 0
		}
		var l []*Node
		switch {
		case a[1].K == Nil:
			l = nil
		case isSeq(a[1]):
			l = a[1].L
		case a[1].K == Map || isScalar(a[1]):
			return errO(name + " of a map/scalar")
		default:
			return unspec(name + " of string/set")
		}
		if n > len(l) {
			n = len(l)
		}
		switch name {
		case "take":
			return val(Li(l[:n]...))
		case "drop":
			return val(Li(l[n:]...))
		case "drop-last":
			return val(Li(l[:len(l)-n]...))
		default:
			if n == 0 {
				return val(N())
			}
			return val(Li(l[len(l)-n:]...))
		}
	case "subvec":
		if len(a) != 2 && len(a) != 3 {
			return errO("arity")
		}
		switch {
		case a[0].K == Vec:
		case isScalar(a[0]):
			return errO("subvec of a scalar")
		default:
			return unspec("subvec of list/nil/map/set/string")
		}
		if a[1].K != Int || (len(a) == 3 && a[2].K != Int) {
			return errO("non-integer bound")
		}
		from, to := a[1].I, len(a[0].L)
		if len(a) == 3 {
			to = a[2].I
		}
		if from < 0 || to > len(a[0].L) || from > to {
			return errO("bounds out of range")
		}
		return val(Ve(a[0].L[from:to]...))
	case "assoc":
		if len(a) < 1 {
			return errO("arity")
		}
		switch a[0].K {
		case Map:
			if len(a) == 1 {
				return unspec("assoc without pairs")
			}
			if len(a)%2 != 1 {
				return errO("odd key/value count")
			}
			m := copyMap(a[0].M)
			for i := 1; i < len(a); i += 2 {
				if !isKey(a[i]) {
					return errO("non-string key")
				}
				m[key(a[i])] = a[i+1]
			}
			return val(Ma(m))
		case Vec:
			if len(a) == 1 {
				return unspec("assoc without pairs")
			}
			if len(a)%2 != 1 {
				return errO("odd index/value count")
			}
			l := append([]*Node{}, a[0].L...)
			for i := 1; i < len(a); i += 2 {
				if a[i].K != Int {
					return errO("non-integer index")
				}
				if a[i].I < 0 || a[i].I > len(l) {
					return errO("index out of range")
				}
				if a[i].I == len(l) {
					return unspec("assoc at index = length")
				}
				l[a[i].I] = a[i+1]
			}
			return val(Ve(l...))
		case Set:
			if len(a) == 1 {
				return unspec("assoc without members")
			}
			m := copySet(a[0].Mem)
			for _, e := range a[1:] {
				if !isKey(e) {
					return errO("non-string member")
				}
				m[key(e)] = true
			}
			return val(&Node{K: Set, Mem: m})
		case Nil, List, Str, Kw:
			return unspec("assoc on nil/list/string")
		}
		return errO("assoc on a scalar")
	case "dissoc":
		if len(a) < 1 {
			return errO("arity")
		}
		switch a[0].K {
		case Map:
			if len(a) == 1 {
				return unspec("dissoc without keys")
			}
			m := copyMap(a[0].M)
			for _, k := range a[1:] {
				if !isKey(k) {
					return errO("non-string key")
				}
				delete(m, key(k))
			}
			return val(Ma(m))
		case Set:
			if len(a) == 1 {
				return unspec("dissoc without keys")
			}
			m := copySet(a[0].Mem)
			for _, k := range a[1:] {
				if !isKey(k) {
					return errO("non-string key")
				}
				delete(m, key(k))
			}
			return val(&Node{K: Set, Mem: m})
		case Nil, List, Vec, Str, Kw:
			return unspec("dissoc on nil/sequence/string")
		}
		return errO("dissoc on a scalar")
	case "get":
		if len(a) != 2 {
			return errO("arity")
		}
		return get(a[0], a[1])
	case "contains?":
		if len(a) != 2 {
			return errO("arity")
		}
		switch a[0].K {
		case Nil:
			if !isKey(a[1]) {
				return unspec("non-string key")
			}
			return val(Bo(false))
		case Map:
			if !isKey(a[1]) {
				// error or false are both defensible; true is not: maps hold string and keyword keys only
				return Outcome{K: Unspecified, Why: "non-string key", Forbid: []*Node{Bo(true)}}
			}
			_, ok := a[0].M[key(a[1])]
			return val(Bo(ok))
		case Set:
			if !isKey(a[1]) {
				return Outcome{K: Unspecified, Why: "non-string key", Forbid: []*Node{Bo(true)}}
			}
			return val(Bo(a[0].Mem[key(a[1])]))
		}
		return unspec("contains? on a sequence or scalar")
	case "keys", "vals":
		if len(a) != 1 {
			return errO("arity")
		}
		switch {
		case a[0].K == Map:
			ks := make([]string, 0, len(a[0].M))
			for k := range a[0].M {
				ks = append(ks, k)
			}
			sort.Strings(ks)
			l := []*Node{}
			for _, k := range ks {
				if name == "keys" {
					l = append(l, KeyNode(k))
				} else {
					l = append(l, a[0].M[k])
				}
			}
			return unord(Li(l...))
		case isScalar(a[0]):
			return errO(name + " of a scalar")
		}
		return unspec(name + " of nil/sequence/set/string")
	case "merge":
		if len(a) != 2 {
			return unspec("merge arity other than 2")
		}
		for _, x := range a {
			if isScalar(x) {
				return errO("merge of a scalar")
			}
			if x.K != Nil && x.K != Map {
				return unspec("merge of a non-map collection")
			}
		}
		if a[0].K == Nil && a[1].K == Nil {
			return val(N())
		}
		m := map[string]*Node{}
		for _, x := range a {
			if x.K == Map {
				for k, v := range x.M {
					m[k] = v
				}
			}
		}
		return val(Ma(m))
	case "rename-keys":
		if len(a) != 2 {
			return errO("arity")
		}
		if a[0].K != Map || a[1].K != Map {
			if isScalar(a[0]) || isScalar(a[1]) {
				return errO("rename-keys of a scalar")
			}
			return unspec("rename-keys of non-maps")
		}
		// Clojure: (reduce (fn [m [old new]] (if (contains? map old) (assoc m new (get map old)) m)) (apply dissoc map (keys kmap)) kmap)
		m := copyMap(a[0].M)
		targets := map[string]int{}
		for old, nw := range a[1].M {
			if _, present := a[0].M[old]; present {
				if !isKey(nw) {
					return unspec("non-string new key")
				}
				targets[key(nw)]++
			}
			delete(m, old)
		}
		for _, n := range targets {
			if n > 1 {
				return unspec("two old keys renamed to the same new key")
			}
		}
		for old, nw := range a[1].M {
			if v, present := a[0].M[old]; present {
				m[key(nw)] = v
			}
		}
		return val(Ma(m))
	case "get-in":
		if len(a) != 2 {
			return errO("arity")
		}
		if a[0].K == Nil {
			return val(N())
		}
		if a[1].K != Vec {
			return unspec("path is not a vector")
		}
		for _, k := range a[1].L {
			if !isKey(k) && k.K != Int {
				return unspec("path element that is neither a string/keyword nor an index")
			}
		}
		cur := a[0]
		for _, k := range a[1].L {
			if cur.K == Nil && k.K == Int {
				// an index into a missing intermediate: "index out of range" is unspecified for get
				return unspec("index into a missing intermediate value")
			}
			o := get(cur, k)
			if o.K != Value {
				return unspec("walking through " + o.Why)
			}
			cur = o.V
		}
		return val(cur)
	case "assoc-in":
		if len(a) != 3 {
			return errO("arity")
		}
		if a[1].K != Vec {
			return unspec("path is not a vector")
		}
		return updIn(a[0], a[1].L, func(old *Node) Outcome { return val(a[2]) })
	case "update":
		if len(a) != 3 {
			return errO("arity")
		}
		if a[0].K == Nil {
			return unspec("update of nil")
		}
		return updIn(a[0], []*Node{a[1]}, func(old *Node) Outcome { return applyFn(a[2], []*Node{old}) })
	case "update-in":
		if len(a) != 3 {
			return errO("arity")
		}
		if a[0].K == Nil {
			return unspec("update-in of nil")
		}
		if a[1].K != Vec {
			return unspec("path is not a vector")
		}
		// the step files document update-in for nested maps and for nested vectors, mixed nesting only for
		// get-in and assoc-in: a path that crosses from one collection kind into the other is unspecified
		cur := a[0]
		for i, k := range a[1].L {
			if i == len(a[1].L)-1 {
				break
			}
			o := get(cur, k)
			if o.K != Value {
				break
			}
			if (o.V.K == Map || o.V.K == Vec) && o.V.K != cur.K {
				return unspec("update-in through mixed map/vector nesting")
			}
			cur = o.V
		}
		return updIn(a[0], a[1].L, func(old *Node) Outcome { return applyFn(a[2], []*Node{old}) })
	case "nil?", "true?", "false?", "symbol?", "keyword?", "string?", "number?", "list?", "vector?", "map?", "set?", "sequential?":
		if len(a) != 1 {
			return errO("arity")
		}
		x := a[0]
		if x.K == Opaque {
			return unspec("predicate on a function object")
		}
		var b bool
		switch name {
		case "nil?":
			b = x.K == Nil
		case "true?":
			b = x.K == Bool && x.B
		case "false?":
			b = x.K == Bool && !x.B
		case "symbol?":
			b = x.K == Sym
		case "keyword?":
			b = x.K == Kw
		case "string?":
			b = x.K == Str
		case "number?":
			b = x.K == Int
		case "list?":
			b = x.K == List
		case "vector?":
			b = x.K == Vec
		case "map?":
			b = x.K == Map
		case "set?":
			b = x.K == Set
		case "sequential?":
			b = isSeq(x)
		}
		return val(Bo(b))
	}
	return unspec("builtin not modelled: " + name)
}

func get(c, k *Node) Outcome {
	switch c.K {
	case Nil:
		return val(N())
	case Map:
		if !isKey(k) {
			return unspec("non-string key on a map")
		}
		if v, ok := c.M[key(k)]; ok {
			return val(v)
		}
		return val(N())
	case Set:
		if !isKey(k) {
			return unspec("non-string key on a set")
		}
		if c.Mem[key(k)] {
			return val(k)
		}
		return val(N())
	case List, Vec:
		if k.K != Int {
			return unspec("non-integer index on a sequence")
		}
		if k.I < 0 || k.I >= len(c.L) {
			return unspec("index out of range")
		}
		return val(c.L[k.I])
	}
	return unspec("get on a scalar")
}

// updIn models assoc-in / update / update-in (stepG): [] path returns c unchanged; missing map keys are
// created; the leaf function sees the old value (nil if absent) exactly once.
func updIn(c *Node, path []*Node, leaf func(old *Node) Outcome) Outcome {
	if len(path) == 0 {
		return val(c)
	}
	k := path[0]
	switch c.K {
	case Map:
		if !isKey(k) {
			return errO("non-string key")
		}
		old, present := c.M[key(k)]
		var nv Outcome
		if len(path) == 1 {
			if !present {
				old = N()
			}
			nv = leaf(old)
		} else {
			if !present || old.K == Nil {
				old = Ma(nil) // missing map keys are created
			}
			nv = updIn(old, path[1:], leaf)
		}
		if nv.K != Value {
			return nv
		}
		m := copyMap(c.M)
		m[key(k)] = nv.V
		return val(Ma(m))
	case Vec:
		if k.K != Int {
			return errO("non-integer index")
		}
		if k.I < 0 || k.I > len(c.L) {
			return errO("index out of range")
		}
		if k.I == len(c.L) {
			return unspec("index = length")
		}
		old := c.L[k.I]
		var nv Outcome
		if len(path) == 1 {
			nv = leaf(old)
		} else {
			if old.K == Nil {
				return unspec("walking through nil inside a vector")
			}
			nv = updIn(old, path[1:], leaf)
		}
		if nv.K != Value {
			return nv
		}
		l := append([]*Node{}, c.L...)
		l[k.I] = nv.V
		return val(Ve(l...))
	case Nil, List, Set, Str, Kw:
		return unspec("update of nil/list/set/string")
	}
	return errO("update of a scalar")
}

// SameUnordered compares two sequences as multisets (kind must match).
func SameUnordered(a, b *Node) bool {
	if a.K != b.K || len(a.L) != len(b.L) {
		return false
	}
	ra, rb := make([]string, len(a.L)), make([]string, len(b.L))
	for i := range a.L {
		ra[i], rb[i] = Render(a.L[i]), Render(b.L[i])
	}
	sort.Strings(ra)
	sort.Strings(rb)
	for i := range ra {
		if ra[i] != rb[i] {
			return false
		}
	}
	return true
}
