module verifharness

go 1.21

require (
	github.com/anishathalye/porcupine v1.3.0
	github.com/chzyer/readline v1.5.1
	github.com/jig/lisp v0.0.0
)

require (
	github.com/davecgh/go-spew v1.1.1 // indirect
	github.com/google/uuid v1.3.0 // indirect
	github.com/jig/scanner v1.2.0 // indirect
)

replace github.com/jig/lisp => /repo
