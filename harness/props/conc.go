package props

import (
	"runtime"
	"sync"
	"sync/atomic"
	"time"

	"github.com/jig/lisp/lib/concurrent"
)

// Hook client for the verif-tagged sites in lib/concurrent: seeded jitter and one-shot parking.

type hookClient struct {
	seed    uint64
	ctr     uint64
	jitter  atomic.Bool
	hits    sync.Map // site -> *uint64
	mu      sync.Mutex
	parkers []*parker
}

type parker struct {
	site    string
	obj     any
	armed   bool
	arrived chan struct{}
	release chan struct{}
}

var hooks = &hookClient{}

func installHooks(seed uint64) *hookClient {
	hooks.seed = seed
	concurrent.VerifHook = hooks.hook
	return hooks
}

func (h *hookClient) hook(site string, obj any) {
	v, _ := h.hits.LoadOrStore(site, new(uint64))
	atomic.AddUint64(v.(*uint64), 1)
	// parking
	h.mu.Lock()
	var p *parker
	for _, q := range h.parkers {
		if q.armed && q.site == site && (q.obj == nil || q.obj == obj) {
			q.armed = false
			p = q
			break
		}
	}
	h.mu.Unlock()
	if p != nil {
		close(p.arrived)
		<-p.release
		return
	}
	if h.jitter.Load() {
		n := atomic.AddUint64(&h.ctr, 1)
		x := (n + h.seed) * 0x9E3779B97F4A7C15
		x ^= x >> 29
		switch x % 10 {
		case 0, 1, 2:
			runtime.Gosched()
		case 3:
			time.Sleep(time.Duration(x>>20%200) * time.Microsecond)
		}
	}
}

// park arms a one-shot parking spot: the first goroutine reaching site (for obj, or any object when nil) blocks
// until release() is called. arrived is closed when it got there.
func (h *hookClient) park(site string, obj any) (arrived <-chan struct{}, release func()) {
	p := &parker{site: site, obj: obj, armed: true, arrived: make(chan struct{}), release: make(chan struct{})}
	h.mu.Lock()
	live := h.parkers[:0]
	for _, q := range h.parkers {
		if q.armed {
			live = append(live, q)
		}
	}
	h.parkers = append(live, p)
	h.mu.Unlock()
	var once sync.Once
	return p.arrived, func() {
		once.Do(func() {
			h.mu.Lock()
			p.armed = false
			h.mu.Unlock()
			close(p.release)
		})
	}
}

func (h *hookClient) hitCounts() map[string]int64 {
	out := map[string]int64{}
	h.hits.Range(func(k, v any) bool {
		out[k.(string)] = int64(atomic.LoadUint64(v.(*uint64)))
		return true
	})
	return out
}

func waitOrTimeout(ch <-chan struct{}, d time.Duration) bool {
	select {
	case <-ch:
		return true
	case <-time.After(d):
		return false
	}
}
