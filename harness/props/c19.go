package props

import (
	"context"
	"fmt"
	"math/rand"
	"os"
	"path/filepath"
	"regexp"
	"sort"
	"strings"
	"time"

	"github.com/jig/lisp"
	"github.com/jig/lisp/bootstrap"
	"github.com/jig/lisp/types"

	"verifharness/canon"
	"verifharness/fw"
	"verifharness/gen"
	"verifharness/hx"
	"verifharness/refmal"
)

// C19: a program means the same however it is delivered.

// c19Tokens renders a form as a token list (token boundaries known to the layout engine).
func c19Tokens(n *canon.Node, out *[]string) {
	switch n.K {
	case canon.List, canon.Vec:
		o, c := "(", ")"
		if n.K == canon.Vec {
			o, c = "[", "]"
		}
		*out = append(*out, o)
		for _, e := range n.L {
			c19Tokens(e, out)
		}
		*out = append(*out, c)
	case canon.Map:
		*out = append(*out, "{")
		keys := make([]string, 0, len(n.M))
		for k := range n.M {
			keys = append(keys, k)
		}
		sort.Strings(keys)
		for _, k := range keys {
			c19Tokens(canon.KeyNode(k), out)
			c19Tokens(n.M[k], out)
		}
		*out = append(*out, "}")
	case canon.Set:
		*out = append(*out, "#{")
		keys := make([]string, 0, len(n.Mem))
		for k := range n.Mem {
			keys = append(keys, k)
		}
		sort.Strings(keys)
		for _, k := range keys {
			c19Tokens(canon.KeyNode(k), out)
		}
		*out = append(*out, "}")
	case canon.Str:
		// strings holding a line break are written as raw strings (real CR/LF characters inside the token)
		if strings.Contains(n.S, "\n") && !strings.Contains(n.S, "¬") {
			*out = append(*out, "¬"+n.S+"¬")
			return
		}
		*out = append(*out, canon.Render(n))
	default:
		*out = append(*out, canon.Render(n))
	}
}

// c19SameEvent compares two trace events; error objects are compared by their message text as well (the text a
// program obtains from a caught error must not depend on the route).
// c19PosRE matches position prefixes ("module§1…2,3…4: ", "§1…1,2…3: ") anywhere in an error text.
var c19PosRE = regexp.MustCompile(`\S*§\S*: `)

func c19SameEvent(a, b *canon.Node) bool {
	if !c12SameModuloGensym(a, b) {
		return false
	}
	return c19ErrTexts(a) == c19ErrTexts(b)
}

func c19ErrTexts(n *canon.Node) string {
	var sb strings.Builder
	var walk func(x *canon.Node)
	walk = func(x *canon.Node) {
		if x.K == canon.Opaque && x.S == "error" {
			if e, ok := x.X.(error); ok {
				sb.WriteString(e.Error() + "|")
			}
		}
		for _, e := range x.L {
			walk(e)
		}
		keys := make([]string, 0, len(x.M))
		for k := range x.M {
			keys = append(keys, k)
		}
		sort.Strings(keys)
		for _, k := range keys {
			walk(x.M[k])
		}
	}
	walk(n)
	return sb.String()
}

type c19Layout struct {
	name string
	sep  func(r *rand.Rand) string
	head string
	tail string
}

func c19Layouts() []c19Layout {
	return []c19Layout{
		{"plain", func(*rand.Rand) string { return " " }, "", "\n"},
		{"comments-between-tokens", func(r *rand.Rand) string {
			return gen.Pick(r, []string{" ", " ", "\n", " ; c ( [ \" \n", "\n;; full line ) } \n  ", "\n\n"})
		}, ";; leading comment block\n;; (unbalanced \"\n\n", "\n"},
		{"crlf", func(r *rand.Rand) string { return gen.Pick(r, []string{" ", "\r\n", "\r\n\r\n", "\t"}) }, "", "\r\n"},
		{"no-final-newline", func(r *rand.Rand) string { return gen.Pick(r, []string{" ", "\n"}) }, "", ""},
		{"trailing-comment-newline", func(r *rand.Rand) string { return gen.Pick(r, []string{" ", "\n"}) }, "", "\n;; trailing comment\n"},
		{"trailing-comment-no-newline", func(r *rand.Rand) string { return gen.Pick(r, []string{" ", "\n"}) }, "", "\n;; trailing comment without newline"},
		{"trailing-comment-same-line", func(r *rand.Rand) string { return " " }, "", " ; end"},
		{"dollar-comment", func(r *rand.Rand) string { return gen.Pick(r, []string{" ", "\n"}) }, ";; $Revision: 1.4 $\n;; $TODO tidy up\n", "\n"},
		{"blank-lines", func(r *rand.Rand) string { return gen.Pick(r, []string{" ", "\n\n\n", "\n"}) }, "\n\n", "\n\n"},
	}
}

// c19Render renders each top-level form with the layout; returns per-form texts.
func c19Render(r *rand.Rand, forms []*canon.Node, l c19Layout) []string {
	var out []string
	for _, f := range forms {
		var toks []string
		c19Tokens(f, &toks)
		var sb strings.Builder
		for i, t := range toks {
			if i > 0 {
				sb.WriteString(l.sep(r))
			}
			sb.WriteString(t)
		}
		out = append(out, sb.String())
	}
	return out
}

type c19Result struct {
	route    string
	class    hx.ErrClass
	trace    []*canon.Node
	val      *canon.Node // EVAL's own return value where the route defines it
	thrown   *canon.Node
	err      error
	panicked string
}

func c19Env(tr *hx.Tracer) types.EnvType {
	e := hx.NewStdEnv()
	hx.InstallTrace(e, tr)
	installFailers(e)
	return e
}

func c19Finish(route string, tr *hx.Tracer, o hx.Outcome, withVal bool) c19Result {
	res := c19Result{route: route, trace: tr.Snapshot(), err: o.Err}
	if o.Panicked {
		res.panicked = o.Site + ": " + o.PanicMsg
		return res
	}
	res.class = hx.Classify(o.Err)
	if o.Err != nil {
		if v, ok := hx.ErrorValue(o.Err); ok && res.class == hx.EThrown {
			res.thrown = canon.FromGo(v)
		}
	} else if withVal {
		res.val = canon.FromGo(o.Val)
	}
	return res
}

func c19Compare(c *fw.Ctx, ref, x c19Result, layout string, input string) bool {
	key := fmt.Sprintf("%s:%s", x.route, layout)
	if x.panicked != "" {
		c.Violate(fw.Violation{Key: "panic:" + key, What: "route " + x.route + " panicked: " + x.panicked, Input: input})
		return false
	}
	if x.class != ref.class {
		c.Violate(fw.Violation{Key: "outcome:" + key, What: fmt.Sprintf("route %s ends with [%s] %v, route %s with [%s] %v", ref.route, orVal(ref.class), ref.err, x.route, orVal(x.class), x.err), Input: input})
		return false
	}
	if len(x.trace) != len(ref.trace) {
		c.Violate(fw.Violation{Key: "trace:" + key, What: fmt.Sprintf("route %s produced %d trace events, route %s %d", ref.route, len(ref.trace), x.route, len(x.trace)), Input: input})
		return false
	}
	for i := range x.trace {
		if !c19SameEvent(x.trace[i], ref.trace[i]) {
			c.Violate(fw.Violation{Key: "trace:" + key, What: fmt.Sprintf("trace event %d: route %s %s, route %s %s", i, ref.route, canon.Render(ref.trace[i]), x.route, canon.Render(x.trace[i])), Input: input})
			return false
		}
	}
	if ref.err != nil && x.err != nil && ref.thrown == nil && x.thrown == nil {
		// the error a program ends with is part of what it means: same text on every route, positions aside
		if a, b := c19PosRE.ReplaceAllString(hx.ErrorCore(ref.err), ""), c19PosRE.ReplaceAllString(hx.ErrorCore(x.err), ""); a != b {
			c.Violate(fw.Violation{Key: "error-text:" + key, What: fmt.Sprintf("route %s ends with the error %q, route %s with %q (positions removed)", ref.route, a, x.route, b), Input: input})
			return false
		}
	}
	if ref.thrown != nil && (x.thrown == nil || !c12SameModuloGensym(ref.thrown, x.thrown)) {
		c.Violate(fw.Violation{Key: "thrown:" + key, What: "thrown value differs between routes", Input: input})
		return false
	}
	if ref.val != nil && x.val != nil && !c12SameModuloGensym(ref.val, x.val) {
		c.Violate(fw.Violation{Key: "value:" + key, What: fmt.Sprintf("route %s returns %s, route %s returns %s", ref.route, canon.Render(ref.val), x.route, canon.Render(x.val)), Input: input})
		return false
	}
	return true
}

func runC19(c *fw.Ctx) {
	if f, err := os.OpenFile(os.DevNull, os.O_WRONLY, 0); err == nil {
		os.Stdout = f
	}
	dir := filepath.Join(c.WorkDir, fmt.Sprintf("c19-files-%d", c.Shard))
	os.MkdirAll(dir, 0o755)
	layouts := c19Layouts()
	r := c.Rand("progs")
	lr := c.Rand("layout")
	gens := []*gen.PG{
		gen.NewPG(r, gen.ProgOpts{MaxDepth: 5, Faults: 10}),
		gen.NewPG(r, gen.ProgOpts{MaxDepth: 5, Macros: true, Try: true, Faults: 5}),
	}
	bootLoad := ""
	for _, line := range strings.Split(bootstrap.Code(), "\n\n") {
		if strings.Contains(line, "(def load-file") {
			bootLoad = line
		}
	}
	if bootLoad == "" {
		panic("bootstrap load-file definition not found")
	}
	ctxOf := func() (context.Context, context.CancelFunc) {
		return context.WithTimeout(context.Background(), 20*time.Second)
	}
	for i := 0; i < c.PerShard(c.Pick(4000, 50000)); i++ {
		pg := gens[i%len(gens)]
		forms := pg.Program()
		// programs the reference interpreter cannot finish within its step budget (runaway recursion) are not delivered;
		// judged on the generated forms alone (the fixed extra forms appended below always terminate)
		discard := ""
		if ref := runRef(forms, 200000); ref.Err != nil && (ref.Err.Class == refmal.Budget || ref.Err.Class == refmal.Malformed) {
			discard = string(ref.Err.Class)
		}
		// the program's value is observed through a final trace! on every route
		last := forms[len(forms)-1]
		forms[len(forms)-1] = canon.Li(canon.Sy("trace!"), last)
		// route-sensitive material: caught error objects of several kinds (their text is observable by the program),
		// and a string with CR LF line breaks inside (written as a multi-line raw string)
		sy, li := canon.Sy, canon.Li
		catchTrace := func(body *canon.Node) *canon.Node {
			return li(sy("try"), body, li(sy("catch"), sy("err"), li(sy("trace!"), li(sy("list"), sy("err"), li(sy("str"), sy("err"))))))
		}
		extras := []*canon.Node{
			li(sy("def"), sy("two-params"), li(sy("fn"), li(sy("p"), sy("q")), sy("p"))),
			catchTrace(li(sy("two-params"), canon.In(1))),
			catchTrace(li(sy("two-params"), canon.In(1), canon.In(2), canon.In(3))),
			catchTrace(sy("no-such-symbol")),
			catchTrace(li(sy("nth"), canon.Ve(), canon.In(3))),
			catchTrace(li(canon.In(1), canon.In(2))),
			li(sy("trace!"), li(sy("list"), li(sy("count"), li(sy("seq"), canon.St("line one\r\nline two\r\n"))), canon.St("a\r\nb"))),
		}
		// values whose comparison could be derived from where their form was read: functions written identically in two
		// places, the same function twice, functions inside collections, a macro and its alias
		cmpTrace := func(a, b *canon.Node) *canon.Node {
			return li(sy("trace!"), li(sy("try"), li(sy("list"), canon.Ke("eq"), li(sy("="), a, b)), li(sy("catch"), sy("err"), canon.Ke("cannot-compare"))))
		}
		extras = append(extras,
			li(sy("def"), sy("same-text-a"), li(sy("fn"), li(sy("p")), sy("p"))), li(sy("def"), sy("same-text-b"), li(sy("fn"), li(sy("p")), sy("p"))),
			cmpTrace(sy("same-text-a"), sy("same-text-b")), cmpTrace(sy("same-text-a"), sy("same-text-a")), cmpTrace(canon.Ve(sy("same-text-a")), canon.Ve(sy("same-text-b"))),
			cmpTrace(li(sy("fn"), li(sy("p")), sy("p")), li(sy("fn"), li(sy("p")), sy("p"))), cmpTrace(sy("two-params"), sy("same-text-a")),
			cmpTrace(canon.Ma(map[string]*canon.Node{canon.Marker + "f": sy("same-text-a")}), canon.Ma(map[string]*canon.Node{canon.Marker + "f": sy("same-text-b")})))
		if r.Intn(4) == 0 {
			// a deeply nested (but ordinary) expression: depth is counted by no route, or by all alike
			depth := gen.Pick(r, []int{60, 120, 125, 126, 127, 128, 129, 130, 200, 255, 256, 257, 400})
			deep := canon.In(0)
			for k := 0; k < depth; k++ {
				if k%2 == 0 {
					deep = li(sy("+"), canon.In(1), deep)
				} else {
					deep = li(sy("do"), deep)
				}
			}
			extras = append(extras, li(sy("trace!"), li(sy("list"), canon.Ke("deep"), canon.In(depth), deep)))
		}
		if r.Intn(3) == 0 {
			extras = extras[:1+r.Intn(len(extras))]
		}
		// bare literals and symbols as top-level forms (evaluated for effect only); an unbound bare symbol must fail
		// on every route
		extras = append(extras, canon.In(5), canon.St("bare string"), sy("two-params"), canon.Ke("bare-keyword"))
		if r.Intn(4) == 0 {
			extras = append(extras, sy("zz-unbound-bare-symbol"))
		}
		forms = append(forms[:len(forms)-1], append(extras, forms[len(forms)-1])...)
		ls := []c19Layout{layouts[0], layouts[1+lr.Intn(len(layouts)-1)], layouts[1+lr.Intn(len(layouts)-1)], layouts[1+lr.Intn(len(layouts)-1)]}
		doForm := canon.Li(append([]*canon.Node{canon.Sy("do")}, forms...)...)
		c.Case(fmt.Sprintf("prog-%d", i), progText(forms), func() {
			// programs the reference interpreter cannot finish within its step budget (runaway recursion) are not delivered
			if discard != "" {
				c.Count("discarded."+discard, 1)
				return
			}
			// reference: plain do-wrapped text, no module
			var ref c19Result
			for li, l := range ls {
				texts := c19Render(lr, forms, l)
				body := strings.Join(texts, l.sep(lr)+"\n")
				doText := l.head + "(do\n" + body + "\n)" + l.tail
				fileText := l.head + body + l.tail
				input := fmt.Sprintf("layout=%s\n%s", l.name, fileText)
				run := func(route string, withVal bool, f func(e types.EnvType, ctx context.Context) hx.Outcome) c19Result {
					tr := &hx.Tracer{}
					e := c19Env(tr)
					ctx, cancel := ctxOf()
					defer cancel()
					var o hx.Outcome
					p, site, msg, _ := fw.Guard(func() { o = f(e, ctx) })
					if p {
						o = hx.Outcome{Panicked: true, Site: site, PanicMsg: msg}
					}
					c.Count("route."+route, 1)
					return c19Finish(route, tr, o, withVal)
				}
				readEval := func(text string, cur *types.Position) func(e types.EnvType, ctx context.Context) hx.Outcome {
					return func(e types.EnvType, ctx context.Context) hx.Outcome {
						ast, err := lisp.READ(text, cur, e)
						if err != nil {
							return hx.Outcome{Err: fmt.Errorf("READ: %w", err)}
						}
						return hx.Eval(ctx, ast, e)
					}
				}
				r1 := run("R1-text", true, readEval(doText, nil))
				if li == 0 {
					ref = r1
					if ref.panicked != "" {
						c.Count("reference_panicked", 1)
						return
					}
					if ref.err != nil && strings.HasPrefix(ref.err.Error(), "READ:") {
						c.Violate(fw.Violation{Key: "read-error:plain", What: "generated program rejected by READ: " + ref.err.Error(), Input: input})
						return
					}
					c.Count("programs", 1)
					if ref.class != hx.ENone {
						c.Count("programs_ending_in_error", 1)
					}
					c.Distinct("shapes", canon.Shape(doForm))
				} else if !c19Compare(c, ref, r1, l.name, input) {
					return
				}
				results := []c19Result{
					run("R2-text-with-module", true, readEval(doText, types.NewCursorFile("prog.lisp"))),
					run("R3-positionless-ast", true, func(e types.EnvType, ctx context.Context) hx.Outcome { return hx.Eval(ctx, canon.ToGo(doForm), e) }),
					run("R4-reread-print", true, func(e types.EnvType, ctx context.Context) hx.Outcome {
						a1, err := lisp.READ(doText, nil, e)
						if err != nil {
							return hx.Outcome{Err: fmt.Errorf("READ: %w", err)}
						}
						a2, err := lisp.READ(lisp.PRINT(a1), nil, e)
						if err != nil {
							return hx.Outcome{Err: fmt.Errorf("READ of PRINT: %w", err)}
						}
						return hx.Eval(ctx, a2, e)
					}),
					run("R5-repl-form-by-form", false, func(e types.EnvType, ctx context.Context) hx.Outcome {
						var o hx.Outcome
						for _, t := range texts {
							_, err := lisp.REPL(ctx, e, l.head+t+l.tail, types.NewCursorFile("REPL"))
							if err != nil {
								return hx.Outcome{Err: err}
							}
						}
						return o
					}),
				}
				results = append(results, run("R5b-repl-form-by-form-no-module", false, func(e types.EnvType, ctx context.Context) hx.Outcome {
					for _, t := range texts {
						if _, err := lisp.REPL(ctx, e, l.head+t+l.tail, nil); err != nil {
							return hx.Outcome{Err: err}
						}
					}
					return hx.Outcome{}
				}))
				// R7: load-file, both definitions
				fn := filepath.Join(dir, fmt.Sprintf("p%d-%d.lisp", i, li))
				if err := os.WriteFile(fn, []byte(fileText), 0o644); err != nil {
					panic(err)
				}
				loadForm := fmt.Sprintf("(load-file %q)", fn)
				results = append(results,
					run("R7-load-file", false, func(e types.EnvType, ctx context.Context) hx.Outcome { return hx.EvalText(ctx, loadForm, e) }),
					run("R7b-load-file-bootstrap", false, func(e types.EnvType, ctx context.Context) hx.Outcome {
						if o := hx.EvalText(ctx, bootLoad, e); o.Err != nil || o.Panicked {
							return o
						}
						return hx.EvalText(ctx, loadForm, e)
					}))
				os.Remove(fn)
				c.Count("layout."+l.name, 1)
				for _, x := range results {
					if !c19Compare(c, ref, x, l.name, input) {
						return
					}
				}
			}
			if i == 0 {
				c.Sample(progText(forms))
			}
		})
	}
	os.RemoveAll(dir)
}

func init() {
	fw.Register(&fw.Property{
		ID:     "C19",
		Run:    runC19,
		Rule:   "seeded programs of 1-8 top-level forms (C01 generator with 10% faults; C12/C03 generator with macros and try) ending in (trace! result), each rendered in the plain layout plus 3 of 7 hostile layouts (comments with brackets/quotes between any two tokens, leading comment block, CRLF between tokens, no final newline, trailing comment with / without final newline / on the last line, blank lines) and delivered through 9 routes in fresh standard environments: do-wrapped text without and with module name, position-less AST built from Go, re-read of its own printed form, forms fed one by one to REPL with and without a module name, file loaded with load-file (library definition and bootstrap.lisp's definition); error class, thrown value, ordered trace (modulo gensym names) and, where defined, EVAL's return value must agree with the plain-text route; distinct = program skeletons; extras compare function values; the error text a program ends with (its own position prefix removed) must agree across routes",
		Assume: []string{"line-ending changes are applied between tokens only", "load-file and the REPL route do not define EVAL's return value: the program's value is compared through the final trace!"},
		Finish: func(m *fw.Merged) {
			m.Floor("programs", 500)
			m.Floor("programs_ending_in_error", 50)
			for _, rt := range []string{"R1-text", "R2-text-with-module", "R3-positionless-ast", "R4-reread-print", "R5-repl-form-by-form", "R5b-repl-form-by-form-no-module", "R7-load-file", "R7b-load-file-bootstrap"} {
				m.Floor("route."+rt, 500)
			}
			m.Floor("layout.trailing-comment-no-newline", 20)
			m.Extra["routes"] = m.CountsWithPrefix("route.")
			m.Extra["layouts"] = m.CountsWithPrefix("layout.")
		},
	})
}
