package props

import (
	"context"
	"fmt"
	"math/rand"
	"sort"

	"github.com/jig/lisp"
	"github.com/jig/lisp/types"

	"verifharness/canon"
	"verifharness/fw"
	"verifharness/gen"
	"verifharness/hx"
)

// C14: (= a b) coincides with structural equality and is an equivalence relation on data.

func c14Atoms() []*canon.Node {
	return []*canon.Node{canon.N(), canon.Bo(false), canon.Bo(true), canon.In(0), canon.In(1), canon.St(""), canon.St("a"), canon.Ke("a"), canon.Sy("a")}
}

// c14Universe: every data value with at most 3 nodes over the atoms and list/vector/map/set constructors.
func c14Universe() []*canon.Node {
	atoms := c14Atoms()
	keys := []string{"a", canon.Marker + "a", ""}
	s1 := append([]*canon.Node{}, atoms...)
	s1 = append(s1, canon.Li(), canon.Ve(), canon.Ma(nil), canon.Se())
	var s2 []*canon.Node
	for _, e := range s1 {
		s2 = append(s2, canon.Li(e), canon.Ve(e))
	}
	for _, k := range keys {
		for _, e := range s1 {
			s2 = append(s2, canon.Ma(map[string]*canon.Node{k: e}))
		}
		s2 = append(s2, canon.Se(k))
	}
	var s3 []*canon.Node
	for _, a := range s1 {
		for _, b := range s1 {
			s3 = append(s3, canon.Li(a, b), canon.Ve(a, b))
		}
	}
	for _, e := range s2 {
		s3 = append(s3, canon.Li(e), canon.Ve(e))
	}
	for _, k := range keys {
		for _, e := range s2 {
			s3 = append(s3, canon.Ma(map[string]*canon.Node{k: e}))
		}
	}
	for i := 0; i < len(keys); i++ {
		for j := i + 1; j < len(keys); j++ {
			for _, a := range s1 {
				for _, b := range s1 {
					s3 = append(s3, canon.Ma(map[string]*canon.Node{keys[i]: a, keys[j]: b}))
				}
			}
			s3 = append(s3, canon.Se(keys[i], keys[j]))
		}
	}
	u := append(append(s1, s2...), s3...)
	return u
}

var c14Calls, c14Disturbed int
var c14Disturb []types.MalType

func c14InitDisturb(env types.EnvType) {
	for _, src := range []string{"(= [+ 1 2] [+ 3 4])", "(= (list (fn (x) x) 1 2) (list (fn (x) x) 3 4))", "(= {:f + :a 1} {:f + :a 2})", "(= [[count 1] 2] [[count 1] 3])", "(= (atom 1) (atom 2))", "(= [(atom 1) :a] [(atom 1) :b])", "(= + +)"} {
		if ast, err := lisp.READ(src, nil, env); err == nil {
			c14Disturb = append(c14Disturb, ast)
		}
	}
}

func c14Eq(env types.EnvType, a, b types.MalType) (res types.MalType, err error, panicked bool, msg string) {
	q := func(v types.MalType) types.MalType {
		return types.List{Val: []types.MalType{types.Symbol{Val: "quote"}, v}}
	}
	ast := types.List{Val: []types.MalType{types.Symbol{Val: "="}, q(a), q(b)}}
	c14Calls++
	if c14Calls%7 == 0 && c14Disturb != nil {
		// history: a comparison that involves functions inside collections (it fails or answers false on this tree)
		// happened just before; the answer for data must not depend on what was compared earlier (seeded C14-m15)
		d := c14Disturb[(c14Calls/7)%len(c14Disturb)]
		fw.Guard(func() { lisp.EVAL(context.Background(), d, env) })
		c14Disturbed++
	}
	p, site, m, _ := fw.Guard(func() { res, err = lisp.EVAL(context.Background(), ast, env) })
	if p {
		return nil, nil, true, site + ": " + m
	}
	return
}

func c14KindPair(a, b *canon.Node) string {
	x, y := a.K.String(), b.K.String()
	if x > y {
		x, y = y, x
	}
	return x + "/" + y
}

// c14Judge compares the interpreter's verdict with the oracle for one ordered pair.
func c14Judge(c *fw.Ctx, env types.EnvType, a, b *canon.Node, ga, gb types.MalType, how string) (real bool, ok bool) {
	res, err, p, msg := c14Eq(env, ga, gb)
	c.Count("eq_calls", 1)
	if p {
		c.Violate(fw.Violation{Key: "panic:" + c14KindPair(a, b), What: "(= a b) panicked: " + msg, Input: fmt.Sprintf("(= '%s '%s)", canon.Render(a), canon.Render(b))})
		return false, false
	}
	if err != nil {
		c.Violate(fw.Violation{Key: "error:" + c14KindPair(a, b), What: "(= a b) returned an error: " + err.Error(), Input: fmt.Sprintf("(= '%s '%s)", canon.Render(a), canon.Render(b))})
		return false, false
	}
	rb, isb := res.(bool)
	if !isb {
		c.Violate(fw.Violation{Key: "nonbool:" + c14KindPair(a, b), What: fmt.Sprintf("(= a b) returned a non-boolean %v", res), Input: fmt.Sprintf("(= '%s '%s)", canon.Render(a), canon.Render(b))})
		return false, false
	}
	want := canon.LispEqual(a, b)
	if rb != want {
		c.Violate(fw.Violation{Key: fmt.Sprintf("%s:%s:got-%v", how, c14KindPair(a, b), rb), What: fmt.Sprintf("(= a b) is %v but structural equality is %v", rb, want), Input: fmt.Sprintf("(= '%s '%s)", canon.Render(a), canon.Render(b))})
		return rb, false
	}
	if want {
		c.Count("equal_pairs", 1)
	}
	return rb, true
}

var c14Mutations = []string{"leaf", "dropkey", "addnilkey", "renamekey", "seqkind", "spelling", "falsy", "dropelem", "addelem", "setmember", "none"}

// c14Mutate returns a mutated deep copy (and whether something was changed).
func c14Mutate(r *rand.Rand, v *canon.Node, kind string) *canon.Node {
	n := canon.Clone(v)
	// collect all nodes with parents
	var nodes []*canon.Node
	var walk func(x *canon.Node)
	walk = func(x *canon.Node) {
		nodes = append(nodes, x)
		for _, e := range x.L {
			walk(e)
		}
		keys := make([]string, 0, len(x.M))
		for k := range x.M {
			keys = append(keys, k)
		}
		sort.Strings(keys)
		for _, k := range keys {
			walk(x.M[k])
		}
	}
	walk(n)
	pick := func(pred func(*canon.Node) bool) *canon.Node {
		var c []*canon.Node
		for _, x := range nodes {
			if pred(x) {
				c = append(c, x)
			}
		}
		if len(c) == 0 {
			return nil
		}
		return c[r.Intn(len(c))]
	}
	sortedKeys := func(x *canon.Node) []string {
		keys := make([]string, 0, len(x.M))
		for k := range x.M {
			keys = append(keys, k)
		}
		sort.Strings(keys)
		return keys
	}
	switch kind {
	case "leaf":
		if x := pick(func(x *canon.Node) bool {
			return x.K == canon.Int || x.K == canon.Str || x.K == canon.Kw || x.K == canon.Sym || x.K == canon.Bool
		}); x != nil {
			switch x.K {
			case canon.Int:
				x.I++
			case canon.Bool:
				x.B = !x.B
			default:
				x.S += "x"
			}
		}
	case "dropkey":
		if x := pick(func(x *canon.Node) bool { return x.K == canon.Map && len(x.M) > 0 }); x != nil {
			ks := sortedKeys(x)
			delete(x.M, ks[r.Intn(len(ks))])
		}
	case "addnilkey":
		if x := pick(func(x *canon.Node) bool { return x.K == canon.Map }); x != nil {
			x.M["zz-new"] = canon.N()
		}
	case "renamekey":
		// same number of keys, one renamed: {:a nil} vs {:b nil}
		if x := pick(func(x *canon.Node) bool { return x.K == canon.Map && len(x.M) > 0 }); x != nil {
			ks := sortedKeys(x)
			k := ks[r.Intn(len(ks))]
			val := x.M[k]
			delete(x.M, k)
			x.M[k+"-renamed"] = val
		}
	case "seqkind":
		if x := pick(func(x *canon.Node) bool { return x.K == canon.List || x.K == canon.Vec }); x != nil {
			if x.K == canon.List {
				x.K = canon.Vec
			} else {
				x.K = canon.List
			}
		}
	case "spelling":
		if x := pick(func(x *canon.Node) bool { return x.K == canon.Str || x.K == canon.Kw || x.K == canon.Sym }); x != nil {
			x.K = []canon.Kind{canon.Str, canon.Kw, canon.Sym}[r.Intn(3)]
			if x.K == canon.Sym && x.S == "" {
				x.S = "s"
			}
		}
	case "falsy":
		if x := pick(func(x *canon.Node) bool {
			return x.K == canon.Nil || (x.K == canon.Bool && !x.B) || (x.K == canon.Int && x.I == 0) || (x.K == canon.Str && x.S == "") || ((x.K == canon.List || x.K == canon.Vec) && len(x.L) == 0)
		}); x != nil {
			alts := []*canon.Node{canon.N(), canon.Bo(false), canon.In(0), canon.St(""), canon.Li(), canon.Ve(), canon.Ma(nil), canon.Se()}
			*x = *alts[r.Intn(len(alts))]
		}
	case "dropelem":
		if x := pick(func(x *canon.Node) bool { return (x.K == canon.List || x.K == canon.Vec) && len(x.L) > 0 }); x != nil {
			i := r.Intn(len(x.L))
			x.L = append(append([]*canon.Node{}, x.L[:i]...), x.L[i+1:]...)
		}
	case "addelem":
		if x := pick(func(x *canon.Node) bool { return x.K == canon.List || x.K == canon.Vec }); x != nil {
			x.L = append(x.L, canon.N())
		}
	case "setmember":
		if x := pick(func(x *canon.Node) bool { return x.K == canon.Set }); x != nil {
			if len(x.Mem) > 0 && r.Intn(2) == 0 {
				for k := range x.Mem {
					delete(x.Mem, k)
					x.Mem[k+"-other"] = true
					break
				}
			} else {
				x.Mem["zz-new"] = true
			}
		}
	}
	return n
}

// c14Constructions renders lisp expressions that build a value equal (under =) to v along different paths.
func c14Construct(r *rand.Rand, v *canon.Node, path int) string {
	q := func(n *canon.Node) string { return "(quote " + canon.Render(n) + ")" }
	switch v.K {
	case canon.List, canon.Vec:
		parts := make([]string, len(v.L))
		for i, e := range v.L {
			parts[i] = c14Construct(r, e, path)
		}
		joined := ""
		for _, p := range parts {
			joined += " " + p
		}
		switch path % 5 {
		case 0:
			return "(list" + joined + ")"
		case 1:
			return "(vector" + joined + ")"
		case 2:
			return "(vec (list" + joined + "))"
		case 3:
			if len(parts) == 0 {
				return "(concat)"
			}
			k := r.Intn(len(parts) + 1)
			a, b := "", ""
			for _, p := range parts[:k] {
				a += " " + p
			}
			for _, p := range parts[k:] {
				b += " " + p
			}
			return "(concat (list" + a + ") (vector" + b + "))"
		default:
			// conj onto a vector one by one
			s := "[]"
			for _, p := range parts {
				s = "(conj " + s + " " + p + ")"
			}
			return s
		}
	case canon.Map:
		keys := make([]string, 0, len(v.M))
		for k := range v.M {
			keys = append(keys, k)
		}
		sort.Strings(keys)
		r.Shuffle(len(keys), func(i, j int) { keys[i], keys[j] = keys[j], keys[i] })
		kv := ""
		for _, k := range keys {
			kv += " " + canon.Render(canon.KeyNode(k)) + " " + c14Construct(r, v.M[k], path)
		}
		switch path % 5 {
		case 0:
			return "(hash-map" + kv + ")"
		case 1:
			s := "{}"
			for _, k := range keys {
				s = "(assoc " + s + " " + canon.Render(canon.KeyNode(k)) + " " + c14Construct(r, v.M[k], path) + ")"
			}
			return s
		case 2:
			return "(dissoc (assoc (hash-map" + kv + ") :zz-extra 1) :zz-extra)"
		case 3:
			h := len(keys) / 2
			a, b := "", ""
			for _, k := range keys[:h] {
				a += " " + canon.Render(canon.KeyNode(k)) + " " + c14Construct(r, v.M[k], path)
			}
			for _, k := range keys[h:] {
				b += " " + canon.Render(canon.KeyNode(k)) + " " + c14Construct(r, v.M[k], path)
			}
			return "(merge (hash-map" + a + ") (hash-map" + b + "))"
		default:
			s := "{}"
			for _, k := range keys {
				s = "(conj " + s + " " + canon.Render(canon.KeyNode(k)) + " " + c14Construct(r, v.M[k], path) + ")"
			}
			return s
		}
	case canon.Set:
		keys := make([]string, 0, len(v.Mem))
		for k := range v.Mem {
			keys = append(keys, k)
		}
		sort.Strings(keys)
		r.Shuffle(len(keys), func(i, j int) { keys[i], keys[j] = keys[j], keys[i] })
		ms := ""
		for _, k := range keys {
			ms += " " + canon.Render(canon.KeyNode(k))
		}
		switch path % 3 {
		case 0:
			return "(hash-set" + ms + ")"
		case 1:
			return "(set [" + ms + "])"
		default:
			s := "#{}"
			for _, k := range keys {
				s = "(conj " + s + " " + canon.Render(canon.KeyNode(k)) + ")"
			}
			return s
		}
	}
	return q(v)
}

func runC14(c *fw.Ctx) {
	env := hx.NewStdEnv()
	c14InitDisturb(env)
	defer func() { c.Count("comparisons_preceded_by_a_comparison_of_functions", c14Disturbed) }()
	// (1) exhaustive universe: all ordered pairs
	u := c14Universe()
	gu := make([]types.MalType, len(u))
	for i, n := range u {
		gu[i] = canon.ToGo(n)
	}
	if c.Shard == 0 {
		c.Count("universe_size", len(u))
	}
	for i := range u {
		if !c.Mine(i) {
			continue
		}
		c.Case(fmt.Sprintf("row-%d", i), "all pairs with a="+canon.Render(u[i]), func() {
			for j := range u {
				rij, _ := c14Judge(c, env, u[i], u[j], gu[i], gu[j], "universe")
				c.Count("pairs", 1)
				if i == j && !rij {
					c.Violate(fw.Violation{Key: "reflexivity:" + u[i].K.String(), What: "(= a a) is false", Input: canon.Render(u[i])})
				}
			}
			c.Distinct("shapes", canon.Render(u[i]))
		})
	}
	// (2) random deep pairs by mutation; symmetry and transitivity monitors
	r := c.Rand("deep")
	o := gen.DefaultOpts()
	o.PlainKeys = true
	o.MaxStr = 3
	for i := 0; i < c.PerShard(c.Pick(600000, 15000000)); i++ {
		o.MaxDepth = 1 + r.Intn(5)
		a := gen.Value(r, o, 0)
		mk := c14Mutations[r.Intn(len(c14Mutations))]
		b := c14Mutate(r, a, mk)
		mk2 := c14Mutations[r.Intn(len(c14Mutations))]
		if r.Intn(2) == 0 {
			mk2 = "seqkind"
		}
		cc := c14Mutate(r, b, mk2)
		c.Case(fmt.Sprintf("deep-%d", i), canon.Render(a)+" | "+canon.Render(b)+" | "+canon.Render(cc), func() {
			ga, gb, gc := canon.ToGo(a), canon.ToGo(b), canon.ToGo(cc)
			ab, ok1 := c14Judge(c, env, a, b, ga, gb, "mutation-"+mk)
			ba, _ := c14Judge(c, env, b, a, gb, ga, "mutation-"+mk)
			bc, _ := c14Judge(c, env, b, cc, gb, gc, "mutation-"+mk2)
			ac, _ := c14Judge(c, env, a, cc, ga, gc, "mutation2")
			aa, _ := c14Judge(c, env, a, a, ga, ga, "self")
			c.Count("pairs", 5)
			c.Count("mutation."+mk, 1)
			c.Count("triples", 1)
			if !aa {
				c.Violate(fw.Violation{Key: "reflexivity:" + a.K.String(), What: "(= a a) is false"})
			}
			if ab != ba {
				c.Violate(fw.Violation{Key: "symmetry:" + c14KindPair(a, b), What: fmt.Sprintf("(= a b)=%v but (= b a)=%v", ab, ba)})
			}
			if ab && bc && !ac {
				c.Violate(fw.Violation{Key: "transitivity:" + c14KindPair(a, cc), What: "(= a b) and (= b c) but not (= a c)"})
			}
			if ab && bc {
				c.Count("transitive_premises_true", 1)
			}
			_ = ok1
			if i < 2 {
				c.Sample(map[string]any{"a": canon.Render(a), "b": canon.Render(b), "mutation": mk, "equal": ab})
			}
		})
	}
	// (2a) deep values: the same nesting written with lists in one value and vectors in the other (equal), and with one
	// differing leaf (unequal), at depths up to 300
	for di, depth := range []int{10, 40, 63, 64, 65, 70, 100, 150, 300} {
		if !c.Mine(di) {
			continue
		}
		mk := func(vec bool, leaf *canon.Node) *canon.Node {
			n := leaf
			for k := 0; k < depth; k++ {
				if vec {
					n = canon.Ve(canon.In(k), n)
				} else {
					n = canon.Li(canon.In(k), n)
				}
			}
			return n
		}
		vals := []*canon.Node{mk(false, canon.Sy("leaf")), mk(true, canon.Sy("leaf")), mk(true, canon.Sy("other")), mk(false, canon.Ma(map[string]*canon.Node{"k": canon.Li(canon.In(1))})), mk(true, canon.Ma(map[string]*canon.Node{"k": canon.Ve(canon.In(1))}))}
		c.Case(fmt.Sprintf("deep-%d", depth), fmt.Sprintf("nesting depth %d, list- vs vector-built", depth), func() {
			for x := range vals {
				for y := range vals {
					c14Judge(c, env, vals[x], vals[y], canon.ToGo(vals[x]), canon.ToGo(vals[y]), fmt.Sprintf("deep-%d", depth))
					c.Count("pairs", 1)
					c.Count("deep_pairs", 1)
				}
			}
		})
	}
	// (2b) values sharing storage with a common parent
	ra := c.Rand("aliasing")
	for i := 0; i < c.PerShard(c.Pick(8000, 200000)); i++ {
		c14Aliasing(c, env, ra, fmt.Sprintf("alias-%d", i))
	}
	// (3) equal values built along different construction paths
	r2 := c.Rand("paths")
	o.Symbols = true
	for i := 0; i < c.PerShard(c.Pick(100000, 3000000)); i++ {
		o.MaxDepth = 1 + r2.Intn(4)
		v := gen.Value(r2, o, 0)
		if v.K != canon.List && v.K != canon.Vec && v.K != canon.Map && v.K != canon.Set {
			continue
		}
		c.Case(fmt.Sprintf("path-%d", i), canon.Render(v), func() {
			var built []types.MalType
			var srcs []string
			for p := 0; p < 5; p++ {
				src := c14Construct(r2, v, p)
				out := hx.EvalText(context.Background(), src, env)
				if out.Panicked || out.Err != nil {
					c.Count("construction_failed", 1) // a C13/C04 matter, not judged here
					continue
				}
				if !canon.LispEqual(canon.FromGo(out.Val), v) {
					c.Count("construction_differs", 1) // a C13 matter
					continue
				}
				built = append(built, out.Val)
				srcs = append(srcs, src)
				c.Count(fmt.Sprintf("path.%d", p), 1)
			}
			for x := range built {
				for y := range built {
					res, err, p, msg := c14Eq(env, built[x], built[y])
					c.Count("pairs", 1)
					c.Count("eq_calls", 1)
					if p || err != nil || res != true {
						c.Violate(fw.Violation{Key: "construction-path:" + v.K.String(), What: fmt.Sprintf("two constructions of the same value are not =: %s vs %s (res=%v err=%v %s)", srcs[x], srcs[y], res, err, msg)})
						return
					}
					c.Count("equal_pairs", 1)
				}
			}
		})
	}
}

// c14Aliasing: values derived from one parent by operations that share (or re-create) its backing storage; every
// pair is compared through = and judged by the canonical forms of the values actually produced.
func c14Aliasing(c *fw.Ctx, env types.EnvType, r *rand.Rand, id string) {
	o := gen.DefaultOpts()
	o.PlainKeys, o.MaxStr, o.MaxDepth, o.MaxWidth = true, 3, 2, 5
	var base *canon.Node
	for {
		base = gen.Value(r, o, 0)
		if base.K == canon.Vec || base.K == canon.List || base.K == canon.Map || base.K == canon.Set {
			break
		}
	}
	c.Case(id, "values derived from "+canon.Render(base), func() {
		e := hx.Sub(env)
		if out := hx.EvalText(context.Background(), "(def base (quote "+canon.Render(base)+"))", e); out.Err != nil || out.Panicked {
			return
		}
		var srcs []string
		switch base.K {
		case canon.Vec, canon.List:
			n := len(base.L)
			srcs = []string{"base", "(vec base)", "(seq base)", "(rest base)", "(concat base)", "(apply list base)", "(with-meta base {:m 1})", "(with-meta base {:type :point})", "(with-meta base {:type :other :doc \"d\"})", "(with-meta (with-meta base {:type :point}) nil)", "(take 2 base)", "(drop 1 base)", "(cons 0 base)", "(rest (cons 0 base))", "(map identity base)", "(apply vector base)"}
			if base.K == canon.Vec {
				for k := 0; k <= n; k++ {
					srcs = append(srcs, fmt.Sprintf("(subvec base 0 %d)", k), fmt.Sprintf("(subvec base %d)", k))
				}
				if n > 0 {
					srcs = append(srcs, fmt.Sprintf("(conj (subvec base 0 %d) (nth base %d))", n-1, n-1), "(assoc base 0 (nth base 0))", fmt.Sprintf("(subvec (conj base 9) 0 %d)", n))
				}
			}
		case canon.Map:
			srcs = []string{"base", "(merge base {})", "(hash-map)", "{}", "(dissoc {:q 1} :q)", "[(hash-map)]", "[{}]", "{:m (hash-map)}", "{:m {}}", "(merge nil (hash-map))", "(merge {} base)", "(dissoc (assoc base :zz 1) :zz)", "(with-meta base {:m 1})", "(with-meta base {:type :point})", "(with-meta base {:type :other :doc \"d\"})", "(with-meta (with-meta base {:type :point}) nil)", "(assoc base :zz nil)", "(conj base :zz nil)", "(rename-keys base {})", "(dissoc base :a)", "(apply hash-map (apply concat (map (fn (k) (list k (get base k))) (keys base))))"}
		case canon.Set:
			srcs = []string{"base", "(set (seq base))", "(set nil)", "(hash-set)", "(set [])", "#{}", "(dissoc (hash-set :q) :q)", "[(set nil)]", "[#{}]", "{:s (set nil)}", "{:s #{}}", "{:s (hash-set)}", "(dissoc (conj base :zz) :zz)", "(with-meta base {:m 1})", "(with-meta base {:type :point})", "(with-meta base {:type :other :doc \"d\"})", "(with-meta (with-meta base {:type :point}) nil)", "(conj base :zz)", "(set (vec base))"}
		}
		// the very same value at several places of one operand, equal at the first occurrence and different (same kind,
		// same size) at a later one: an answer for one occurrence says nothing about the next
		mut := ""
		switch {
		case (base.K == canon.Vec || base.K == canon.List) && len(base.L) > 0:
			mut = fmt.Sprintf("(assoc (vec base) %d :changed-here)", len(base.L)-1)
		case base.K == canon.Map && len(base.M) > 0:
			for k := range base.M {
				mut = fmt.Sprintf("(assoc base %s :changed-here)", canon.Render(canon.KeyNode(k)))
				break
			}
		case base.K == canon.Set && len(base.Mem) > 0:
			for k := range base.Mem {
				mut = fmt.Sprintf("(conj (dissoc base %s) :changed-here)", canon.Render(canon.KeyNode(k)))
				break
			}
		}
		srcs = append(srcs, "[base base base]", "(list base base)", "{:a base :b base}", "[[base] [base]]")
		if mut != "" {
			srcs = append(srcs, fmt.Sprintf("(assoc [base base base] 2 %s)", mut), fmt.Sprintf("(assoc [base base base] 0 %s)", mut), fmt.Sprintf("(list base %s)", mut), fmt.Sprintf("(assoc {:a base :b base} :b %s)", mut), fmt.Sprintf("[[base] [%s]]", mut), fmt.Sprintf("[%s base base]", mut))
		}
		var vals []types.MalType
		var kept []string
		for _, src := range srcs {
			out := hx.EvalText(context.Background(), src, e)
			if out.Err != nil || out.Panicked {
				continue
			}
			vals = append(vals, out.Val)
			kept = append(kept, src)
		}
		for x := range vals {
			for y := range vals {
				a, b := canon.FromGo(vals[x]), canon.FromGo(vals[y])
				res, err, p, msg := c14Eq(env, vals[x], vals[y])
				c.Count("pairs", 1)
				c.Count("eq_calls", 1)
				c.Count("aliasing_pairs", 1)
				want := canon.LispEqual(a, b)
				if p || err != nil || res != want {
					c.Violate(fw.Violation{Key: fmt.Sprintf("shared-structure:%s:got-%v", c14KindPair(a, b), res), What: fmt.Sprintf("(= %s %s) with base %s is %v (err %v %s) but the values are %s and %s", kept[x], kept[y], canon.Render(base), res, err, msg, canon.Render(a), canon.Render(b))})
					return
				}
				if want {
					c.Count("equal_pairs", 1)
				}
			}
		}
	})
}

func init() {
	fw.Register(&fw.Property{
		ID:     "C14",
		Run:    runC14,
		Rule:   "all ordered pairs of the exhaustive universe of data values with <=3 nodes over {nil false true 0 1 \"\" \"a\" :a 'a} x {list vector map set}; seeded deep triples (v, mutation of v, second mutation) with 11 mutation kinds incl. renamed key with equal count, key bound to nil, list<->vector, same-spelling string/keyword/symbol, nil/false/()/0/\"\"; values rebuilt along 5 construction paths (literal, hash-map, assoc/conj chains in shuffled order, merge, dissoc of an extra key, vec/concat); (= a b) through EVAL is compared with the harness's own structural equality, plus reflexivity, symmetry and transitivity monitors; distinct = universe rows; construction paths include with-meta (also {:type …} metadata and metadata removed again)",
		Assume: []string{"the oracle canon.LispEqual is the statement's structural equality (list and vector interchangeable, maps by key set and values, sets by members)"},
		Finish: func(m *fw.Merged) {
			m.Floor("pairs", 100000)
			if m.Counts["pairs"] > 0 && m.Counts["equal_pairs"]*20 < m.Counts["pairs"]/10 {
				// equal fraction floor is applied to the mutation part, see counters
			}
			m.Floor("transitive_premises_true", 100)
			m.Floor("aliasing_pairs", 10000)
			m.Extra["mutation_kinds"] = m.CountsWithPrefix("mutation.")
			m.Extra["construction_paths"] = m.CountsWithPrefix("path.")
			m.Extra["exhaustive"] = true
		},
	})
}
