package props

import (
	"context"
	"fmt"
	"math/rand"
	"sort"
	"strings"
	"sync"
	"time"

	"github.com/anishathalye/porcupine"
	"github.com/jig/lisp"
	"github.com/jig/lisp/types"

	"verifharness/canon"
	"verifharness/fw"
	"verifharness/hx"
)

// C09: atom operations are atomic (linearizable), never lose updates and never hang.

type c09In struct {
	Atom string
	Kind string // deref print reset swap-add swap-conj swap-fail
	Arg  int
}

type c09Out struct {
	Val string // rendered value, or printed string for print
	Err bool
}

func c09Step(state, in, out any) (bool, any) {
	st := state.(string)
	i, o := in.(c09In), out.(c09Out)
	switch i.Kind {
	case "deref":
		return !o.Err && o.Val == st, st
	case "print":
		return !o.Err && o.Val == "«atom "+st+"»", st
	case "reset":
		v := fmt.Sprint(i.Arg)
		return !o.Err && o.Val == v, v
	case "swap-add":
		var n int
		if _, err := fmt.Sscan(st, &n); err != nil {
			return false, st
		}
		v := fmt.Sprint(n + i.Arg)
		return !o.Err && o.Val == v, v
	case "swap-conj":
		// state is a rendered vector "[a b c]"
		inner := strings.TrimSuffix(strings.TrimPrefix(st, "["), "]")
		v := "[" + strings.TrimSpace(inner+" "+fmt.Sprint(i.Arg)) + "]"
		return !o.Err && o.Val == v, v
	case "swap-fail":
		return o.Err, st
	case "reset-seq":
		// Arg even: the list (1 2 Arg/2); odd: the vector [1 2 Arg/2]: equal under = to the other kind, different values
		v := fmt.Sprintf("(1 2 %d)", i.Arg/2)
		if i.Arg%2 == 1 {
			v = fmt.Sprintf("[1 2 %d]", i.Arg/2)
		}
		return !o.Err && o.Val == v, v
	}
	return false, st
}

func c09Model(initial map[string]string) porcupine.Model {
	return porcupine.Model{
		Partition: func(history []porcupine.Operation) [][]porcupine.Operation {
			m := map[string][]porcupine.Operation{}
			var keys []string
			for _, op := range history {
				k := op.Input.(c09In).Atom
				if _, ok := m[k]; !ok {
					keys = append(keys, k)
				}
				m[k] = append(m[k], op)
			}
			sort.Strings(keys)
			out := make([][]porcupine.Operation, 0, len(keys))
			for _, k := range keys {
				out = append(out, m[k])
			}
			return out
		},
		Init: func() any { return "?" },
		Step: func(state, in, out any) (bool, any) {
			if state.(string) == "?" {
				state = initial[in.(c09In).Atom]
			}
			return c09Step(state, in, out)
		},
		DescribeOperation: func(in, out any) string {
			return fmt.Sprintf("%v -> %v", in, out)
		},
	}
}

func c09Form(in c09In) string {
	switch in.Kind {
	case "deref":
		return "@" + in.Atom
	case "print":
		return fmt.Sprintf("(pr-str %s)", in.Atom)
	case "reset":
		return fmt.Sprintf("(reset! %s %d)", in.Atom, in.Arg)
	case "swap-add":
		return fmt.Sprintf("(swap! %s + %d)", in.Atom, in.Arg)
	case "swap-conj":
		return fmt.Sprintf("(swap! %s conj %d)", in.Atom, in.Arg)
	case "swap-fail":
		return fmt.Sprintf("(swap! %s (fn (n) (throw \"update-failed-%d\")))", in.Atom, in.Arg)
	case "reset-seq":
		if in.Arg%2 == 1 {
			return fmt.Sprintf("(reset! %s [1 2 %d])", in.Atom, in.Arg/2)
		}
		return fmt.Sprintf("(reset! %s (list 1 2 %d))", in.Atom, in.Arg/2)
	}
	return "nil"
}

type c09Client struct {
	ops    []c09In
	future []bool // run the op from inside a lisp future and deref it
}

func c09OpsText(ops []porcupine.Operation) string {
	sort.Slice(ops, func(i, j int) bool { return ops[i].Call < ops[j].Call })
	var sb strings.Builder
	for _, op := range ops {
		fmt.Fprintf(&sb, "client %d  call=%dns return=%dns  %s  => %v\n", op.ClientId, op.Call, op.Return, c09Form(op.Input.(c09In)), op.Output)
	}
	return sb.String()
}

// c09History runs one concurrent history and checks it.
func c09History(c *fw.Ctx, r *rand.Rand, id string, parked bool) {
	c.Case(id, "(history; written out on violation)", func() {
		env := hx.NewStdEnv()
		nCounters, nLogs := 1+r.Intn(2), r.Intn(2)
		initial := map[string]string{}
		var atoms []string
		for i := 0; i < nCounters; i++ {
			a := fmt.Sprintf("c%d", i)
			hx.EvalText(context.Background(), fmt.Sprintf("(def %s (atom 0))", a), env)
			initial[a] = "0"
			atoms = append(atoms, a)
		}
		for i := 0; i < nLogs; i++ {
			a := fmt.Sprintf("l%d", i)
			hx.EvalText(context.Background(), fmt.Sprintf("(def %s (atom []))", a), env)
			initial[a] = "[]"
			atoms = append(atoms, a)
		}
		// an atom holding sequences: reset! alternates between lists and vectors that are = to each other
		if r.Intn(2) == 0 {
			hx.EvalText(context.Background(), "(def q0 (atom (list 1 2 0)))", env)
			initial["q0"] = "(1 2 0)"
			atoms = append(atoms, "q0")
		}
		nClients := 3 + r.Intn(6)
		clients := make([]c09Client, nClients)
		for ci := range clients {
			nOps := 4 + r.Intn(9)
			for k := 0; k < nOps; k++ {
				a := atoms[r.Intn(len(atoms))]
				uniq := (ci+1)*1000000 + k
				var in c09In
				if a[0] == 'q' {
					switch r.Intn(4) {
					case 0:
						in = c09In{a, "deref", 0}
					case 1:
						in = c09In{a, "print", 0}
					default:
						in = c09In{a, "reset-seq", r.Intn(4)} // few distinct values: equal-but-different-kind resets collide
					}
				} else if a[0] == 'c' {
					switch r.Intn(10) {
					case 0, 1, 2:
						in = c09In{a, "deref", 0}
					case 3:
						in = c09In{a, "print", 0}
					case 4, 5:
						in = c09In{a, "reset", uniq}
					case 6, 7, 8:
						in = c09In{a, "swap-add", 1 + r.Intn(3)}
					default:
						in = c09In{a, "swap-fail", uniq}
					}
				} else {
					switch r.Intn(8) {
					case 0, 1:
						in = c09In{a, "deref", 0}
					case 2:
						in = c09In{a, "print", 0}
					case 3:
						in = c09In{a, "swap-fail", uniq}
					default:
						in = c09In{a, "swap-conj", uniq}
					}
				}
				clients[ci].ops = append(clients[ci].ops, in)
				clients[ci].future = append(clients[ci].future, r.Intn(6) == 0)
			}
		}
		// pre-read all forms
		type pre struct {
			ast types.MalType
		}
		asts := make([][]types.MalType, nClients)
		for ci, cl := range clients {
			for k, in := range cl.ops {
				src := c09Form(in)
				if cl.future[k] {
					src = "@(future " + src + ")"
				}
				ast, err := lisp.READ(src, nil, env)
				if err != nil {
					panic(err)
				}
				asts[ci] = append(asts[ci], ast)
			}
		}
		var release func()
		if parked {
			// park the first swap! that reaches the point between computing and installing its result
			var arrived <-chan struct{}
			arrived, release = hooks.park("atom.swap.mid", nil)
			go func() {
				// release it once it has been parked for a while so that other clients complete operations meanwhile
				if waitOrTimeout(arrived, 2*time.Second) {
					time.Sleep(time.Duration(200+r.Intn(800)) * time.Microsecond)
					c.Count("parked_scenarios_executed", 1)
				}
				release()
			}()
		}
		t0 := time.Now()
		var mu sync.Mutex
		var ops []porcupine.Operation
		var wg sync.WaitGroup
		start := make(chan struct{})
		ctx, cancel := context.WithTimeout(context.Background(), 30*time.Second)
		defer cancel()
		blocked := make(chan string, nClients)
		for ci := range clients {
			wg.Add(1)
			go func(ci int) {
				defer wg.Done()
				<-start
				for k, in := range clients[ci].ops {
					call := time.Since(t0).Nanoseconds()
					o := hx.Eval(ctx, asts[ci][k], env)
					ret := time.Since(t0).Nanoseconds()
					out := c09Out{}
					switch {
					case o.Panicked:
						out = c09Out{Val: "panic: " + o.PanicMsg, Err: true}
					case o.Err != nil:
						out = c09Out{Val: o.Err.Error(), Err: true}
						if strings.Contains(o.Err.Error(), "timeout") || hx.IsTimeoutText(o.Err.Error()) {
							blocked <- fmt.Sprintf("client %d: %s ended only with the context deadline", ci, c09Form(in))
						}
					default:
						if s, ok := o.Val.(string); ok && in.Kind == "print" {
							out = c09Out{Val: s}
						} else {
							out = c09Out{Val: canon.Render(canon.FromGo(o.Val))}
						}
					}
					mu.Lock()
					ops = append(ops, porcupine.Operation{ClientId: ci, Input: in, Call: call, Output: out, Return: ret})
					mu.Unlock()
				}
			}(ci)
		}
		close(start)
		done := make(chan struct{})
		go func() { wg.Wait(); close(done) }()
		if !waitOrTimeout(done, 60*time.Second) {
			c.Violate(fw.Violation{Key: "blocked-operation", What: "an atom operation did not return within 60 s (normal: microseconds)", Input: c09OpsText(ops), Detail: fw.GoroutineDump()})
			c.Runaway()
			if release != nil {
				release()
			}
			return
		}
		if release != nil {
			release()
		}
		select {
		case m := <-blocked:
			c.Violate(fw.Violation{Key: "blocked-operation", What: m, Input: c09OpsText(ops)})
			return
		default:
		}
		// final state must be consistent too: append a final deref per atom after everything returned
		for _, a := range atoms {
			call := time.Since(t0).Nanoseconds()
			o := hx.EvalText(context.Background(), "@"+a, env)
			ret := time.Since(t0).Nanoseconds()
			ops = append(ops, porcupine.Operation{ClientId: nClients, Input: c09In{a, "deref", 0}, Call: call, Output: c09Out{Val: canon.Render(canon.FromGo(o.Val))}, Return: ret})
		}
		// overlap statistics
		overlap := 0
		for i := range ops {
			for j := range ops {
				if i != j && ops[i].Input.(c09In).Atom == ops[j].Input.(c09In).Atom && ops[i].Call < ops[j].Return && ops[j].Call < ops[i].Return {
					overlap++
					break
				}
			}
		}
		c.Count("histories", 1)
		c.Count("operations", len(ops))
		c.Count("overlapping_operations", overlap)
		if overlap >= 2 {
			c.Count("histories_with_overlap", 1)
		}
		// shape: order of call/return events by client
		type ev struct {
			t int64
			s string
		}
		var evs []ev
		for _, op := range ops {
			evs = append(evs, ev{op.Call, fmt.Sprintf("c%d%s", op.ClientId, op.Input.(c09In).Kind)}, ev{op.Return, fmt.Sprintf("r%d", op.ClientId)})
		}
		sort.Slice(evs, func(i, j int) bool { return evs[i].t < evs[j].t })
		var sh strings.Builder
		for _, e := range evs {
			sh.WriteString(e.s)
		}
		c.Distinct("shapes", sh.String())
		res, _ := porcupine.CheckOperationsVerbose(c09Model(initial), ops, 30*time.Second)
		switch res {
		case porcupine.Ok:
			c.Count("porcupine_ok", 1)
		case porcupine.Unknown:
			c.Count("porcupine_unknown", 1)
		case porcupine.Illegal:
			c.Count("porcupine_illegal", 1)
			key := "not-linearizable"
			if parked {
				key = "not-linearizable(parked-swap)"
			}
			c.Violate(fw.Violation{Key: key, What: "history of atom operations is not linearizable w.r.t. the sequential register model", Input: c09OpsText(ops)})
		}
		if c.Shard == 0 && strings.HasSuffix(id, "-0") {
			c.Sample(strings.Split(c09OpsText(ops), "\n"))
		}
	})
}

// c09Progress: update functions that read atoms (including their own), update other atoms or fail.
func c09Progress(c *fw.Ctx, id string, name string, setup string, threads []string, rounds int, check func(env types.EnvType) string) {
	c.Case(id, name+": "+strings.Join(threads, " || "), func() {
		env := hx.NewStdEnv()
		if o := hx.EvalText(context.Background(), setup, env); o.Err != nil || o.Panicked {
			panic(fmt.Sprint("setup failed: ", o.Err, o.PanicMsg))
		}
		ctx, cancel := context.WithTimeout(context.Background(), 10*time.Second)
		defer cancel()
		var wg sync.WaitGroup
		errs := make(chan string, len(threads)*rounds)
		for _, src := range threads {
			ast, err := lisp.READ(src, nil, env)
			if err != nil {
				panic(err)
			}
			wg.Add(1)
			go func(ast types.MalType, src string) {
				defer wg.Done()
				for k := 0; k < rounds; k++ {
					o := hx.Eval(ctx, ast, env)
					if o.Panicked {
						errs <- "panic: " + o.PanicMsg
						return
					}
					if o.Err != nil && (strings.Contains(o.Err.Error(), "timeout") || hx.IsTimeoutText(o.Err.Error())) {
						errs <- src + " ended only with the context deadline: " + o.Err.Error()
						return
					}
				}
			}(ast, src)
		}
		done := make(chan struct{})
		go func() { wg.Wait(); close(done) }()
		c.Count("progress_scenarios", 1)
		if !waitOrTimeout(done, 40*time.Second) {
			dump := fw.GoroutineDump()
			key := "blocked:" + name
			c.Violate(fw.Violation{Key: key, What: "evaluation blocked forever (not even the 10 s context deadline ended it)", Detail: dump})
			c.Runaway()
			return
		}
		select {
		case m := <-errs:
			c.Violate(fw.Violation{Key: "blocked:" + name, What: m})
			return
		default:
		}
		if check != nil {
			if m := check(env); m != "" {
				c.Violate(fw.Violation{Key: "wrong-result:" + name, What: m})
			}
		}
	})
}

// c09CancelledLoser: a swap! is parked between computing its result and installing it; another writer lands; the
// parked evaluation's context ends (cancel, or future-cancel of the future it runs in); it is released. Whatever that
// swap! returns, the atom must stay usable: every later operation from other evaluations returns.
func c09CancelledLoser(c *fw.Ctx, id string, viaFuture bool) {
	c.Case(id, fmt.Sprintf("cancelled swap! that lost the race (via future: %v)", viaFuture), func() {
		env := hx.NewStdEnv()
		if o := hx.EvalText(context.Background(), "(def a (atom 0))", env); o.Err != nil {
			panic(o.Err)
		}
		hooks.jitter.Store(false)
		defer hooks.jitter.Store(true)
		arrived, release := hooks.park("atom.swap.mid", nil)
		ctxA, cancelA := context.WithCancel(context.Background())
		defer cancelA()
		aDone := make(chan hx.Outcome, 1)
		go func() {
			if viaFuture {
				aDone <- hx.EvalText(ctxA, "(do (def f (future (swap! a inc))) (try @f (catch e :cancelled)))", env)
			} else {
				aDone <- hx.EvalText(ctxA, "(swap! a inc)", env)
			}
		}()
		if !waitOrTimeout(arrived, 20*time.Second) {
			release()
			c.Count("cancelled_loser_hook_not_reached", 1)
			return
		}
		o := hx.EvalText(context.Background(), "(reset! a 100)", env)
		if o.Err != nil || o.Panicked {
			release()
			c.Violate(fw.Violation{Key: "wrong-result:reset-while-swap-parked", What: fmt.Sprint(o.Err, o.PanicMsg)})
			return
		}
		if viaFuture {
			hx.EvalText(context.Background(), "(future-cancel f)", env)
		} else {
			cancelA()
		}
		release()
		c.Count("cancelled_loser_scenarios", 1)
		select {
		case <-aDone:
		case <-time.After(30 * time.Second):
			c.Violate(fw.Violation{Key: "blocked:cancelled-swap-never-returned", What: "the cancelled swap! did not return within 30 s", Detail: fw.GoroutineDump()})
			c.Runaway()
			return
		}
		// the atom is still usable
		var res []string
		ok := fw.WithTimeout(30*time.Second, func() {
			for _, src := range []string{"@a", "(str a)", "(reset! a 7)", "(swap! a inc)", "@a"} {
				o := hx.EvalText(context.Background(), src, env)
				res = append(res, fmt.Sprintf("%s => %v %v", src, o.Val, o.Err))
			}
		})
		if !ok {
			c.Violate(fw.Violation{Key: "blocked:atom-unusable-after-cancelled-swap", What: "after a swap! that lost the race to another writer and whose context had ended, operations on the atom never return: " + strings.Join(res, "; "), Detail: fw.GoroutineDump()})
			c.Runaway()
			return
		}
		if n, e := c09EvalInt(env, "@a"); e != "" || n != 8 {
			c.Violate(fw.Violation{Key: "wrong-result:after-cancelled-swap", What: fmt.Sprintf("after (reset! a 7) (swap! a inc) the atom holds %d %s: %s", n, e, strings.Join(res, "; "))})
		}
	})
}

func c09EvalInt(env types.EnvType, src string) (int, string) {
	o := hx.EvalText(context.Background(), src, env)
	if o.Err != nil || o.Panicked {
		return 0, fmt.Sprint(o.Err, o.PanicMsg)
	}
	n, ok := o.Val.(int)
	if !ok {
		return 0, fmt.Sprintf("not an int: %v", o.Val)
	}
	return n, ""
}

func runC09(c *fw.Ctx) {
	h := installHooks(uint64(c.Seed)*1000 + uint64(c.Shard))
	h.jitter.Store(true)
	r := c.Rand("hist")
	for i := 0; i < c.PerShard(c.Pick(1600, 40000)); i++ {
		c09History(c, r, fmt.Sprintf("hist-%d", i), false)
	}
	for i := 0; i < c.PerShard(c.Pick(480, 12000)); i++ {
		c09History(c, r, fmt.Sprintf("parked-%d", i), true)
	}
	for i := 0; i < c.PerShard(c.Pick(64, 1600)); i++ {
		c09CancelledLoser(c, fmt.Sprintf("cancelled-loser-%d", i), i%2 == 1)
	}
	// bounded progress and library code on atoms
	rounds := c.Pick(30, 300)
	type sc struct {
		name, setup string
		threads     []string
		check       func(env types.EnvType) string
	}
	scs := []sc{
		{"self-deref", "(def a (atom 1))", []string{"(swap! a (fn (n) (+ n @a)))"}, nil},
		{"self-deref-concurrent", "(def a (atom 1))", []string{"(swap! a (fn (n) (+ 1 (- @a n) n)))", "(swap! a (fn (n) (+ 1 (- @a n) n)))", "@a", "(reset! a 0)"}, nil},
		{"self-deref-contended", "(def a (atom 1))", []string{"(swap! a (fn (n) (+ 1 (- @a n) n)))", "(swap! a (fn (n) (+ 1 (- @a n) n)))", "(swap! a (fn (n) (+ 1 (- @a n) n)))", "(swap! a (fn (n) (+ 1 (- @a n) n)))",
			"(swap! a (fn (n) (+ 1 (- @a n) n)))", "(swap! a (fn (n) (+ 1 (- @a n) n)))", "(swap! a (fn (n) (do (pr-str a) (+ n 1))))", "(swap! a (fn (n) (do (pr-str a) (+ n 1))))",
			"(swap! a inc)", "(swap! a inc)", "(swap! a inc)", "(swap! a inc)", "(swap! a inc)", "(swap! a inc)", "(reset! a @a)", "@a"}, nil},
		{"self-print", "(def a (atom 1))", []string{"(swap! a (fn (n) (do (pr-str a) (str a) (+ n 1))))", "(swap! a inc)"}, nil},
		{"deref-other", "(do (def a (atom 1)) (def b (atom 2)))", []string{"(swap! a (fn (n) (+ n @b)))", "(swap! b (fn (n) (+ n @a)))"}, nil},
		{"abba", "(do (def a (atom 0)) (def b (atom 0)))", []string{"(swap! a (fn (n) (do (swap! b inc) (+ n 1))))", "(swap! b (fn (n) (do (swap! a inc) (+ n 1))))"}, nil},
		{"failing-update", "(def a (atom 5))", []string{"(try (swap! a (fn (n) (throw \"x\"))) (catch e nil))", "(try (swap! a (fn (n) (nth [] 3))) (catch e nil))", "(swap! a inc)", "@a"},
			func(env types.EnvType) string {
				n, e := c09EvalInt(env, "@a")
				if e != "" {
					return "atom unusable after failing updates: " + e
				}
				if n != 5+rounds {
					return fmt.Sprintf("after %d successful increments and only failing other updates the atom holds %d, expected %d", rounds, n, 5+rounds)
				}
				return ""
			}},
		{"counter-conservation", "(def a (atom 0))", []string{"(swap! a inc)", "(swap! a inc)", "(swap! a + 2)", "(swap! a (fn (n) (+ n 1)))", "(swap! a inc)", "(swap! a inc)", "(swap! a inc)", "(swap! a inc)"},
			func(env types.EnvType) string {
				n, e := c09EvalInt(env, "@a")
				if e != "" {
					return e
				}
				if n != 9*rounds {
					return fmt.Sprintf("lost update: %d increments totalling %d were issued, the atom holds %d", 8*rounds, 9*rounds, n)
				}
				return ""
			}},
	}
	for i, s := range scs {
		if c.Mine(i) {
			for rep := 0; rep < c.Pick(3, 30); rep++ {
				c09Progress(c, fmt.Sprintf("progress-%d-%d", i, rep), s.name, s.setup, s.threads, rounds, s.check)
			}
		}
	}
	// gensym from 16 threads: all symbols distinct
	if c.Mine(7) {
		for rep := 0; rep < c.Pick(3, 30); rep++ {
			c09Gensym(c, fmt.Sprintf("gensym-%d", rep), 16, c.Pick(50, 300))
			c09Memoize(c, fmt.Sprintf("memoize-%d", rep), 16, c.Pick(20, 100))
		}
	}
	for k, v := range h.hitCounts() {
		c.Count("hook_hits."+k, int(v))
	}
}

func c09Gensym(c *fw.Ctx, id string, threads, per int) {
	c.Case(id, fmt.Sprintf("(gensym) x %d from %d threads", per, threads), func() {
		env := hx.NewStdEnv()
		ast, _ := lisp.READ("(gensym)", nil, env)
		var mu sync.Mutex
		seen := map[string]int{}
		var wg sync.WaitGroup
		for t := 0; t < threads; t++ {
			wg.Add(1)
			go func() {
				defer wg.Done()
				for k := 0; k < per; k++ {
					o := hx.Eval(context.Background(), ast, env)
					if s, ok := o.Val.(types.Symbol); ok {
						mu.Lock()
						seen[s.Val]++
						mu.Unlock()
					}
				}
			}()
		}
		done := make(chan struct{})
		go func() { wg.Wait(); close(done) }()
		if !waitOrTimeout(done, 60*time.Second) {
			c.Violate(fw.Violation{Key: "blocked:gensym", What: "gensym blocked", Detail: fw.GoroutineDump()})
			return
		}
		c.Count("gensym_calls", threads*per)
		if len(seen) != threads*per {
			dup := ""
			for k, n := range seen {
				if n > 1 {
					dup = k
					break
				}
			}
			c.Violate(fw.Violation{Key: "gensym-duplicate", What: fmt.Sprintf("%d gensym calls produced only %d distinct symbols (e.g. %s twice): an update of the counter atom was lost", threads*per, len(seen), dup)})
		}
	})
}

func c09Memoize(c *fw.Ctx, id string, threads, per int) {
	c.Case(id, "memoized function called from many threads", func() {
		env := hx.NewStdEnv()
		hx.EvalText(context.Background(), "(def slow (memoize (fn (x y) (+ (* x 1000) y))))", env)
		var wg sync.WaitGroup
		bad := make(chan string, threads)
		for t := 0; t < threads; t++ {
			wg.Add(1)
			go func(t int) {
				defer wg.Done()
				for k := 0; k < per; k++ {
					x, y := k%7, (k+t)%5
					o := hx.EvalText(context.Background(), fmt.Sprintf("(slow %d %d)", x, y), env)
					if o.Panicked || o.Err != nil || o.Val != x*1000+y {
						bad <- fmt.Sprintf("(slow %d %d) = %v (err %v %s)", x, y, o.Val, o.Err, o.PanicMsg)
						return
					}
				}
			}(t)
		}
		done := make(chan struct{})
		go func() { wg.Wait(); close(done) }()
		if !waitOrTimeout(done, 60*time.Second) {
			c.Violate(fw.Violation{Key: "blocked:memoize", What: "memoize blocked", Detail: fw.GoroutineDump()})
			return
		}
		c.Count("memoize_calls", threads*per)
		select {
		case m := <-bad:
			c.Violate(fw.Violation{Key: "memoize-wrong", What: m})
		default:
		}
	})
}

func init() {
	fw.Register(&fw.Property{
		ID:   "C09",
		Race: true,
		Run:  runC09,
		TimeoutS: func(tier string) int {
			if tier == "thorough" {
				return 2400
			}
			return 300
		},
		Rule:   "seeded short histories (3-8 Go clients x 4-12 operations on 1-3 atoms; operations deref, pr-str, reset! with unique values, swap! +k, swap! conj unique id, swap! with a failing update; 1 in 6 issued from inside a lisp future) recorded at the EVAL boundary with one monotonic clock and checked for linearizability (porcupine, partitioned by atom) against a sequential register model, with seeded jitter at the verif hook sites and, in a second family, the first swap! parked between computing and installing its result while other clients complete; all under the Go race detector; plus bounded-progress scenarios (update function derefs/prints its own atom, derefs another, ABBA cross-updates, failing updates, counter conservation) and library code on atoms (gensym distinctness, memoize results) from 16 threads; distinct = distinct call/return interleaving shapes; cancelled-loser scenarios: a swap! parked between computing and installing, another writer lands, the parked evaluation's context ends (cancel or future-cancel), it is released: the atom must stay usable (deref, print, reset!, swap! return and agree)",
		Assume: []string{"porcupine timeout (30 s) is inconclusive", "an update function that updates the very atom being swapped is excluded by the statement", "a blocked evaluation is declared after 40-60 s (normal: microseconds)"},
		Finish: func(m *fw.Merged) {
			m.Floor("histories", 100)
			m.Floor("parked_scenarios_executed", 20)
			m.Floor("cancelled_loser_scenarios", 16)
			m.Floor("hook_hits.atom.swap.mid", 100)
			if m.Counts["histories"] > 0 && m.Counts["histories_with_overlap"]*100 < m.Counts["histories"]*60 {
				m.Inconclusive = append(m.Inconclusive, fmt.Sprintf("only %d of %d histories had overlapping operations", m.Counts["histories_with_overlap"], m.Counts["histories"]))
			}
			if m.Counts["porcupine_unknown"] > 0 {
				m.Inconclusive = append(m.Inconclusive, fmt.Sprintf("%d histories could not be decided within the checker timeout", m.Counts["porcupine_unknown"]))
			}
			m.Extra["hook_site_hits"] = m.CountsWithPrefix("hook_hits.")
			m.Extra["porcupine"] = map[string]int64{"ok": m.Counts["porcupine_ok"], "illegal": m.Counts["porcupine_illegal"], "unknown": m.Counts["porcupine_unknown"]}
		},
	})
}
