package props

import (
	"fmt"

	"verifharness/canon"
	"verifharness/fw"
	"verifharness/gen"
)

// C03: throw / catch / finally.

// c03Fixed: deterministic probes of every path x finally, with call-shaped thrown objects.
func c03Fixed() [][]*canon.Node {
	s, l, q := canon.Sy, canon.Li, func(n *canon.Node) *canon.Node { return canon.Li(canon.Sy("quote"), n) }
	tr := func(n *canon.Node) *canon.Node { return l(s("trace!"), n) }
	k := canon.Ke
	thrown := []*canon.Node{q(l(s("+"), canon.In(1), canon.In(2))), q(l(s("trace!"), k("again"))), q(s("undefined-sym")), canon.St("str"), canon.In(7),
		q(canon.Ve(l(s("trace!"), k("v")))), q(canon.Ma(map[string]*canon.Node{canon.Marker + "a": s("nope")})), q(l(s("throw"), canon.In(1)))}
	var out [][]*canon.Node
	for _, th := range thrown {
		throw := l(s("throw"), th)
		fin := l(s("finally"), tr(k("fin")))
		finE := l(s("finally"), tr(l(s("try"), s("e"), l(s("catch"), s("_"), k("unbound")))))
		for _, withFin := range []*canon.Node{nil, fin, finE} {
			add := func(forms ...*canon.Node) {
				t := []*canon.Node{s("try")}
				t = append(t, forms...)
				if withFin != nil {
					t = append(t, withFin)
				}
				out = append(out, []*canon.Node{l(t...)})
				// the same inside a let that binds e outside, reading e afterwards
				out = append(out, []*canon.Node{l(s("let"), l(s("e"), k("outer")), l(s("list"), l(t...), s("e")))})
			}
			add(tr(canon.In(1)))                                                                                   // normal
			add(tr(k("body")), throw, tr(k("not-reached")))                                                        // uncaught
			add(throw, l(s("catch"), s("e"), tr(k("handler")), s("e")))                                            // caught, handler returns the caught value
			add(throw, l(s("catch"), s("e"), l(s("throw"), s("e"))))                                               // handler rethrows
			add(throw, l(s("catch"), s("e"), l(s("throw"), l(s("list"), s("e"), s("e")))))                         // handler throws another
			add(throw, l(s("catch"), s("e"), l(l(s("fn"), l(s("z")), tr(k("tail")), s("z")), s("e"))))             // handler tail call
			add(l(s("try"), throw, l(s("catch"), s("e"), l(s("throw"), s("e")))), l(s("catch"), s("e2"), s("e2"))) // nested rethrow
		}
	}
	return out
}

func runC03(c *fw.Ctx) {
	b := newDiffBase()
	for i, forms := range c03Fixed() {
		if c.Mine(i) {
			diffProgram(c, b, fmt.Sprintf("fixed-%d", i), forms, nil, "")
			c.Count("fixed_probes", 1)
		}
	}
	r := c.Rand("try")
	pg := gen.NewPG(r, gen.ProgOpts{Try: true, GoErrors: true, Faults: 5, MaxDepth: c.Pick(5, 7)})
	for i := 0; i < c.PerShard(c.Pick(400000, 6000000)); i++ {
		forms := pg.Program()
		if i < 2 {
			c.Sample(progText(forms))
		}
		diffProgram(c, b, fmt.Sprintf("try-%d", i), forms, pg.GlobalNames(), "")
	}
	for k, v := range pg.Stats {
		c.Count("feature."+k, v)
	}
}

func init() {
	fw.Register(&fw.Property{
		ID:     "C03",
		Run:    runC03,
		Rule:   "deterministic probes (8 thrown objects incl. call-shaped lists, symbols, maps/vectors of calls x 7 paths x {no finally, finally, finally reading the catch symbol} x {bare, inside a let binding the catch symbol outside}) plus seeded typed programs nesting try/catch/finally with throws in bodies, callees 1-3 frames down, inside map/apply, in handlers and next to finally, Go errors returned and panicked by harness builtins bound through lib/call; result, error class, thrown value (ErrorValue, structural), errors.Is for Go sentinels and the ordered trace are compared with the reference interpreter; distinct = program skeletons with non-empty trace; thrown objects include nil/false/0/\"\"/[]/()/{}; builtins registered as plain Go function values (no binder) returning an error, panicking with an error and with a Go runtime error inside try bodies",
		Assume: []string{"refmal's try semantics are written from the statement: handler value returned not re-evaluated, catch variable scoped to the handler, finally once after body/handler in the try's own scope with its own outcome ignored", "the representation of an error object raised by a builtin and bound to a catch variable is left open (matched as wildcard: error object or message string)"},
		Finish: func(m *fw.Merged) {
			m.Floor("programs", 10000)
			m.Floor("finally_runs", 1000)
			m.Floor("outcome.thrown", 100)
			m.Floor("feature.handler-returns-caught", 100)
			m.Floor("feature.throw-call-shaped", 100)
			m.Floor("feature.go-error-returned", 50)
			m.Floor("feature.go-error-panicked", 50)
			m.Extra["outcome_histogram"] = m.CountsWithPrefix("outcome.")
			m.Extra["features"] = m.CountsWithPrefix("feature.")
			m.Extra["discarded"] = m.CountsWithPrefix("discarded.")
		},
	})
}
