package props

import (
	"context"
	"fmt"
	"math/rand"
	"os"
	"os/exec"
	"path/filepath"
	"sort"
	"strings"
	"sync"
	"time"
	"unicode/utf8"

	"github.com/jig/lisp"
	"github.com/jig/lisp/reader"
	"github.com/jig/lisp/types"

	"verifharness/canon"
	"verifharness/fw"
	"verifharness/gen"
	"verifharness/hx"
)

// C05: reading never panics or hangs; PRINT of a successfully read AST terminates.

var c05Tokens = []string{"(", ")", "[", "]", "{", "}", "#{", "«", "»", "'", "`", "~", "~@", "^", "@", "$x", "$", "a", ":k", "1", `"s"`, "¬r¬", ";c\n", "go-error", "-", "1.5"}

type c05API struct {
	name string
	call func(s string) (types.MalType, error)
}

func c05APIs(env types.EnvType) []c05API {
	mod := "mod.lisp"
	filled := &types.HashMap{Val: map[string]types.MalType{"$x": 7, "$": "dollar", "$1": types.List{Val: []types.MalType{1, 2}}}}
	return []c05API{
		{"READ(nil,nil)", func(s string) (types.MalType, error) { return lisp.READ(s, nil, nil) }},
		{"READ(cursor,nil)", func(s string) (types.MalType, error) { return lisp.READ(s, types.NewCursorFile(mod), nil) }},
		{"READ(nil,env)", func(s string) (types.MalType, error) { return lisp.READ(s, nil, env) }},
		{"READ(cursor,env)", func(s string) (types.MalType, error) { return lisp.READ(s, types.NewCursorFile(mod), env) }},
		{"READWithPreamble(nil,nil)", func(s string) (types.MalType, error) { return lisp.READWithPreamble(s, nil, nil) }},
		{"READWithPreamble(cursor,env)", func(s string) (types.MalType, error) {
			return lisp.READWithPreamble(s, types.NewCursorFile(mod), env)
		}},
		{"Read_str(emptymap)", func(s string) (types.MalType, error) { return reader.Read_str(s, nil, &types.HashMap{}) }},
		{"Read_str(filledmap,env)", func(s string) (types.MalType, error) { return reader.Read_str(s, nil, filled, env) }},
		{"read-string", func(s string) (types.MalType, error) {
			return lisp.EVAL(context.Background(), types.List{Val: []types.MalType{types.Symbol{Val: "read-string"}, s}}, env)
		}},
	}
}

func c05Classes(s string) []string {
	var cl []string
	add := func(c string) { cl = append(cl, c) }
	if !utf8.ValidString(s) {
		add("invalid-utf8")
	}
	for _, p := range []struct{ sub, name string }{{"\x00", "NUL"}, {"¬", "rawquote"}, {"\"", "dquote"}, {"\\", "backslash"}, {"«", "goctor"}, {"$", "placeholder"}, {";", "comment"}, {"\r", "CR"}, {"\uFEFF", "BOM"}, {"ʞ", "marker"}, {"#{", "set"}, {"~@", "splice"}, {"^", "meta"}, {";; $", "preamble"}} {
		if strings.Contains(s, p.sub) {
			add(p.name)
		}
	}
	return cl
}

// c05One drives one input text through the API matrix.
func c05One(c *fw.Ctx, apis []c05API, id, s string) {
	c.Case(id, s, func() {
		done := fw.WithTimeout(10*time.Second, func() { c05Matrix(c, apis, s) })
		if !done {
			// still running: give it another 30 s on a second goroutine before calling it a hang
			c.Count("slow_over_10s", 1)
			ok2 := fw.WithTimeout(30*time.Second, func() { c05Matrix(c, apis, s) })
			if !ok2 {
				c.Violate(fw.Violation{Key: "hang", What: "reader/printer did not return within 10 s and, run again, within 30 s (normal: microseconds)", Detail: fw.GoroutineDump()})
				c.Runaway()
			}
		}
	})
}

func c05Matrix(c *fw.Ctx, apis []c05API, s string) {
	for _, cl := range c05Classes(s) {
		c.Count("class."+cl, 1)
	}
	for _, api := range apis {
		var ast types.MalType
		var err error
		p, site, msg, st := fw.Guard(func() { ast, err = api.call(s) })
		c.Count("api_calls", 1)
		if p {
			c.Violate(fw.Violation{Key: "panic@" + site, What: fmt.Sprintf("%s panicked: %s", api.name, msg), Detail: st})
			continue
		}
		if err != nil {
			c.Count("rejected."+api.name, 1)
			m := err.Error()
			if i := strings.Index(m, ": "); i >= 0 && strings.Contains(m[:i], "§") {
				m = m[i+2:]
			}
			if len(m) > 60 {
				m = m[:60]
			}
			c.Distinct("error_messages", m)
			continue
		}
		c.Count("accepted."+api.name, 1)
		var out string
		p, site, msg, st = fw.Guard(func() { out = lisp.PRINT(ast) })
		if p {
			c.Violate(fw.Violation{Key: "panic@" + site, What: fmt.Sprintf("PRINT of the AST returned by %s panicked: %s", api.name, msg), Detail: st})
			continue
		}
		c.Count("printed", 1)
		_ = out
	}
}

func c05RepoTexts() []string {
	var out []string
	filepath.Walk("/repo", func(path string, info os.FileInfo, err error) error {
		if err != nil || info.IsDir() {
			if info != nil && info.IsDir() && info.Name() == ".git" {
				return filepath.SkipDir
			}
			return nil
		}
		if strings.HasSuffix(path, ".lisp") || strings.HasSuffix(path, ".mal") {
			if b, e := os.ReadFile(path); e == nil {
				out = append(out, string(b))
			}
		}
		return nil
	})
	sort.Strings(out)
	return out
}

func c05RandomText(r *rand.Rand) string {
	switch r.Intn(6) {
	case 0: // raw bytes
		n := r.Intn(24)
		b := make([]byte, n)
		for i := range b {
			if r.Intn(2) == 0 {
				b[i] = byte(r.Intn(256))
			} else {
				b[i] = "()[]{}\"\\;'`~@^$#:¬ \n\t01a-."[r.Intn(27)]
			}
		}
		return string(b)
	case 1:
		return gen.HostileString(r, 20, true)
	case 2: // token soup with hostile glue
		n := 1 + r.Intn(12)
		var sb strings.Builder
		for i := 0; i < n; i++ {
			sb.WriteString(c05Tokens[r.Intn(len(c05Tokens))])
			sb.WriteString(gen.Pick(r, []string{" ", "", "\n", "\r\n", "\t", ",", " ;x\n"}))
		}
		return sb.String()
	case 3: // a rendered value with one mutation
		v := gen.Value(r, gen.DefaultOpts(), 0)
		s := canon.Render(v)
		return c05Mutate(r, s)
	case 4: // string-literal edge cases
		inner := gen.HostileString(r, 6, true)
		return gen.Pick(r, []string{`"`, `¬`, `"\`, `¬¬`, `"a\`, `:`, `#`, `~`, `-`, `0x`, `1_`, `0b2`, `1e`, `.5`, `..`}) + inner + gen.Pick(r, []string{"", `"`, `¬`, `\`})
	default: // deep nesting
		d := 1 + r.Intn(200)
		open := gen.Pick(r, []string{"(", "[", "{", "#{", "'", "`", "~", "@", "^", "«a "})
		return strings.Repeat(open, d) + gen.Pick(r, []string{"", "1", ")", strings.Repeat(")", d)})
	}
}

func c05Mutate(r *rand.Rand, s string) string {
	if len(s) == 0 {
		return s
	}
	b := []byte(s)
	switch r.Intn(4) {
	case 0:
		return string(b[:r.Intn(len(b)+1)])
	case 1:
		i := r.Intn(len(b))
		return string(b[:i]) + string(gen.HostileRunes[r.Intn(len(gen.HostileRunes))]) + string(b[i+1:])
	case 2:
		i := r.Intn(len(b) + 1)
		return string(b[:i]) + c05Tokens[r.Intn(len(c05Tokens))] + string(b[i:])
	default:
		i := r.Intn(len(b))
		b[i] = byte(r.Intn(256))
		return string(b)
	}
}

func c05Preamble(r *rand.Rand) string {
	var sb strings.Builder
	if r.Intn(12) == 0 {
		// a chain of preamble lines in which every value mentions earlier placeholders several times: whatever the
		// reader makes of such values, reading and printing the result must stay proportional to the text
		n := 20 + r.Intn(30)
		open, close := gen.Pick(r, [][2]string{{"[", "]"}, {"(list ", ")"}, {"{:a ", "}"}, {"#{", "}"}, {"'(", ")"}})[0], ""
		switch open {
		case "[":
			close = "]"
		case "(list ", "'(":
			close = ")"
		default:
			close = "}"
		}
		sb.WriteString(";; $P0 [1 2]\n")
		for i := 1; i <= n; i++ {
			sb.WriteString(fmt.Sprintf(";; $P%d %s$P%d $P%d%s\n", i, open, i-1, gen.Pick(r, []int{i - 1, i - 1, max(0, i-2)}), close))
		}
		sb.WriteString(fmt.Sprintf("\n[$P%d $P%d]", n, n))
		return sb.String()
	}
	n := r.Intn(4)
	for i := 0; i < n; i++ {
		switch r.Intn(8) {
		case 0:
			sb.WriteString(";; $" + gen.Pick(r, []string{"x", "1", "A-b_c", "MODULE", ""}) + " " + c05RandomText(r))
		case 1:
			sb.WriteString(";; $x")
		case 2:
			sb.WriteString(";; $x ")
		case 3:
			sb.WriteString(";; $x $y")
		case 4:
			sb.WriteString(";; " + c05RandomText(r))
		case 5:
			sb.WriteString(";; $x " + canon.Render(gen.Value(r, gen.DefaultOpts(), 2)))
		case 6:
			sb.WriteString(";;$x 1")
		default:
			sb.WriteString(";; $MODULE " + gen.Pick(r, []string{"m.lisp", "", " ", "a b"}))
		}
		sb.WriteString(gen.Pick(r, []string{"\n", "\r\n", "\n\n", ""}))
	}
	sb.WriteString(gen.Pick(r, []string{"\n", "", "\n\n"}))
	sb.WriteString(gen.Pick(r, []string{"$x", "(list $x $y)", "[$1 \"$x\"]", ";; $x 3\n$x", c05RandomText(r)}))
	return sb.String()
}

func runC05(c *fw.Ctx) {
	env := hx.NewStdEnv()
	apis := c05APIs(env)

	// (a) exhaustive token soups
	maxLen := c.Pick(4, 5)
	idx := 0
	var rec func(prefix []string)
	var seps = []string{" ", ""}
	emit := func(toks []string) {
		for si, sep := range seps {
			if sep == "" && len(toks) > maxLen-1 && c.Quick() {
				continue
			}
			if c.Mine(idx) {
				s := strings.Join(toks, sep)
				c05One(c, apis, fmt.Sprintf("soup-%d-%d", idx, si), s)
				c.Distinct("shapes", s)
			}
			idx++
		}
	}
	rec = func(prefix []string) {
		if len(prefix) > 0 {
			emit(prefix)
		}
		if len(prefix) == maxLen {
			return
		}
		for _, t := range c05Tokens {
			rec(append(prefix, t))
		}
	}
	rec(nil)
	c.Count("soup_inputs_enumerated_globally", 0)

	// (b) repository sources truncated at every byte offset of a window, plus single-rune substitutions
	rg := c.RandGlobal("files")
	texts := c05RepoTexts()
	for _, h := range []string{} {
		texts = append(texts, h)
	}
	step := c.Pick(5, 1)
	n := 0
	for ti, t := range texts {
		win := t
		if len(win) > 1500 {
			st := rg.Intn(len(win) - 1500)
			// move to a line start
			if i := strings.Index(win[st:], "\n"); i >= 0 {
				st += i + 1
			}
			end := st + 1500
			if end > len(win) {
				end = len(win)
			}
			win = win[st:end]
		}
		for off := 0; off <= len(win); off += step {
			if c.Mine(n) {
				s := win[:off]
				c05One(c, apis, fmt.Sprintf("trunc-%d-%d", ti, off), s)
				c.Count("truncations", 1)
			}
			n++
		}
		for k := 0; k < c.Pick(20, 200); k++ {
			off := rg.Intn(len(win) + 1)
			sub := string(gen.HostileRunes[rg.Intn(len(gen.HostileRunes))])
			if c.Mine(n) {
				s := win[:off] + sub + win[min(off+1, len(win)):]
				c05One(c, apis, fmt.Sprintf("subst-%d-%d", ti, k), s)
				c.Count("substitutions", 1)
			}
			n++
		}
	}
	c.Count("repo_files", len(texts)/max(1, c.NShards))

	// (c) random texts, (d) preamble shapes
	r := c.Rand("random")
	for i := 0; i < c.PerShard(c.Pick(400000, 6000000)); i++ {
		var s string
		if i%5 == 4 {
			s = c05Preamble(r)
			c.Count("preamble_inputs", 1)
		} else {
			s = c05RandomText(r)
		}
		if i < 3 {
			c.Sample(s)
		}
		c05One(c, apis, fmt.Sprintf("rnd-%d", i), s)
		if len(s) < 40 {
			c.Distinct("shapes", s)
		}
	}
	// (e) first readings of fresh names by several goroutines at once
	for b := 0; b < c.Pick(3, 30); b++ {
		c05ConcurrentFirstReadings(c, env, fmt.Sprintf("concurrent-first-%d", b), c.Shard*1000+b)
	}
}

// c05ConcurrentFirstReadings: several goroutines call the reader at the same moment on texts none of which has been read
// before in this process (fresh keyword, symbol, string and placeholder names in every text, so that any table the reader
// keeps between calls is written by all of them at once). Each call runs under recover(); what it returned is compared
// afterwards with what the same text gives when read alone. A reader that dies with a Go fatal error (concurrent map
// writes) ends the worker inside this case, which the driver reports (seeded C05-m12).
func c05ConcurrentFirstReadings(c *fw.Ctx, env types.EnvType, id string, batch int) {
	c.Case(id, "8 goroutines x 400 texts of fresh names through READ, READWithPreamble and read-string", func() {
		outcome := func(api int, t string) string {
			var ast types.MalType
			var err error
			p, site, msg, _ := fw.Guard(func() {
				switch api {
				case 0:
					ast, err = lisp.READ(t, nil, env)
				case 1:
					ast, err = lisp.READWithPreamble(t, types.NewCursorFile("m"), env)
				default:
					ast, err = lisp.EVAL(context.Background(), types.List{Val: []types.MalType{types.Symbol{Val: "read-string"}, t}}, env)
				}
			})
			switch {
			case p:
				return "panic@" + site + ": " + msg
			case err != nil:
				return "error: " + err.Error()
			}
			return "value: " + canon.Render(canon.FromGo(ast))
		}
		const G, N = 8, 400
		texts := make([][]string, G)
		got := make([][]string, G)
		for g := 0; g < G; g++ {
			for k := 0; k < N; k++ {
				u := fmt.Sprintf("%d-%d-%d", batch, g, k)
				t := fmt.Sprintf("{:k%[1]s [s%[1]s \"t%[1]s\" :v%[1]s] :w%[1]s #{:m%[1]s} \"u%[1]s\" (q%[1]s %[2]d ¬r%[1]s¬)}", u, k)
				switch k % 8 {
				case 5:
					t = ";; $P" + u + " 1\n\n" + t
				case 6:
					t = t[:len(t)/2] // unfinished: an error every time
				case 7:
					t = "(" + t + " $X" + u + ")"
				}
				texts[g] = append(texts[g], t)
			}
			got[g] = make([]string, N)
		}
		start := make(chan struct{})
		var wg sync.WaitGroup
		for g := 0; g < G; g++ {
			wg.Add(1)
			go func(g int) {
				defer wg.Done()
				<-start
				for k, t := range texts[g] {
					got[g][k] = outcome(k%3, t)
				}
			}(g)
		}
		close(start)
		wg.Wait()
		c.Count("concurrent_first_reading_batches", 1)
		for g := 0; g < G; g++ {
			for k, t := range texts[g] {
				c.Count("concurrent_first_readings", 1)
				if strings.HasPrefix(got[g][k], "panic@") {
					c.Violate(fw.Violation{Key: "concurrent:" + strings.SplitN(got[g][k], ":", 2)[0], What: "the reader panicked while other goroutines were reading: " + got[g][k], Input: t})
					return
				}
				if alone := outcome(k%3, t); alone != got[g][k] {
					c.Violate(fw.Violation{Key: "concurrent-first-readings-interfere", What: fmt.Sprintf("read alone: %s; read for the first time while 7 other goroutines were reading other texts: %s", alone, got[g][k]), Input: t})
					return
				}
			}
		}
	})
}

// c05Fuzz (driver side): coverage-guided extension. Go's native fuzzer mutates the repository's lisp sources and
// reader edge cases through the same entry points; a panic or a 20 s stall fails the target and is a violation.
func c05Fuzz(m *fw.Merged) { fuzzStep(m, "FuzzRead", "60000x", "4000000x") }

// fuzzStep runs one native fuzz target of harness/fuzz with a count-based budget and turns a failure into a violation.
func fuzzStep(m *fw.Merged, target, quick, thorough string) {
	execs := quick
	if m.Tier == "thorough" {
		execs = thorough
	}
	vd := os.Getenv("VERIF_DIR")
	if vd == "" {
		vd = "/verif"
	}
	dir := filepath.Join(vd, "harness")
	crashDir := filepath.Join(dir, "fuzz", "testdata", "fuzz", target)
	os.RemoveAll(crashDir)
	args := []string{"test", "-tags", "verif", "-run", "^$", "-fuzz", "^" + target + "$", "-fuzztime", execs}
	if alt := os.Getenv("VERIF_REPO_DIR"); alt != "" {
		if mods, _ := filepath.Glob(filepath.Join(vd, ".work", "alt-*.mod")); len(mods) > 0 {
			args = append(args, "-modfile="+mods[0])
		}
	}
	args = append(args, "./fuzz")
	cmd := exec.Command("go", args...)
	cmd.Dir = dir
	cmd.Env = append(os.Environ(), "GOFLAGS=-mod=mod", "GOPROXY=off", "GOSUMDB=off", "GOTOOLCHAIN=local")
	out, err := cmd.CombinedOutput()
	text := string(out)
	var lastExecs, interesting int64
	for _, l := range strings.Split(text, "\n") {
		var el, ex, rate, ni, tot int64
		if n, _ := fmt.Sscanf(l, "fuzz: elapsed: %ds, execs: %d (%d/sec), new interesting: %d (total: %d)", &el, &ex, &rate, &ni, &tot); n == 5 {
			lastExecs, interesting = ex, tot
		}
	}
	m.Extra["coverage_guided_fuzz"] = map[string]any{"target": target, "budget": execs, "executions": lastExecs, "interesting_inputs_in_corpus": interesting}
	m.Counts["fuzz_executions"] = lastExecs
	if err != nil && !strings.Contains(text, "--- FAIL: "+target) && !strings.Contains(text, "panic: ") && !strings.Contains(text, "fatal error: ") {
		// the target did not fail on an input: the fuzz run itself could not be made (build or setup failure):
		// neither held nor violated
		if len(text) > 1500 {
			text = text[len(text)-1500:]
		}
		m.Inconclusive = append(m.Inconclusive, "coverage-guided fuzz run of "+target+" could not be made: "+err.Error()+": "+text)
		err = nil
	}
	if err != nil {
		input := "(see detail)"
		if files, _ := filepath.Glob(filepath.Join(crashDir, "*")); len(files) > 0 {
			if b, e := os.ReadFile(files[0]); e == nil {
				input = string(b)
			}
		}
		key := "fuzz:failure"
		if i := strings.Index(text, "panic: "); i >= 0 {
			key = "fuzz:panic@" + fw.PanicSite(text[i:])
		}
		if len(text) > 6000 {
			text = text[len(text)-6000:]
		}
		m.Violations = append(m.Violations, fw.Violation{Key: key, CaseID: "fuzz", What: "the coverage-guided fuzz target " + target + " failed", Input: input, Detail: text})
		m.Counts["violations_by_key."+key]++
	}
	os.RemoveAll(filepath.Join(dir, "fuzz", "testdata"))
}

func init() {
	fw.Register(&fw.Property{
		ID:     "C05",
		Run:    runC05,
		Rule:   "inputs = every token sequence up to the tier's length over a 26-token alphabet (space-joined and unseparated), every truncation of a window of every .lisp/.mal file under /repo plus hostile single-rune substitutions, seeded random byte/Unicode/nested texts and preamble shapes; each input goes through 9 reader entry points (READ ±cursor ±environment, READWithPreamble, Read_str with empty/filled placeholder map, read-string via EVAL) and PRINT on success, each under recover() and a 10 s/30 s watchdog; distinct = distinct input texts shorter than 40 bytes; in addition Go's coverage-guided fuzzer (FuzzRead, count-based budget) mutates the repository's sources through 7 entry points; preamble chains of 20-50 lines whose values mention earlier placeholders several times; batches of 8 goroutines reading 400 texts each for the first time in the process (fresh keyword/symbol/string/placeholder names) through READ, READWithPreamble and read-string at once, every outcome compared with the same text read alone",
		Assume: []string{"inputs are at most a few KiB and nested at most 200 deep (host-stack exhaustion on megabytes of '(' is excluded)", "a hang is declared only after 30 s on a re-run; slower-than-10 s cases are counted, not judged"},
		Finish: func(m *fw.Merged) {
			c05Fuzz(m)
			m.Floor("api_calls", 100000)
			m.Floor("printed", 1000)
			m.Extra["accepted_per_api"] = m.CountsWithPrefix("accepted.")
			m.Extra["rejected_per_api"] = m.CountsWithPrefix("rejected.")
			m.Extra["inputs_per_hostile_class"] = m.CountsWithPrefix("class.")
			m.Extra["distinct_error_messages"] = m.DistinctN("error_messages")
		},
	})
}
