package props

import (
	"context"
	"fmt"
	"math/rand"
	"runtime"
	"runtime/debug"
	"strings"
	"sync"
	"time"

	lisp "github.com/jig/lisp"
	"github.com/jig/lisp/debuggertypes"
	"github.com/jig/lisp/types"

	"verifharness/fw"
	"verifharness/hx"
)

// C08: tail calls use no host stack.

type c08Mon struct {
	mu    sync.Mutex
	base  []int // depths reported by (depth!) at base cases
	iters []int // depths reported by (depth-iter!) at every iteration
}

func c08Install(e types.EnvType, m *c08Mon) {
	pcs := func() int {
		var buf [4096]uintptr
		n := runtime.Callers(0, buf[:])
		if n == len(buf) {
			// deeper than the buffer: count precisely with a larger one
			big := make([]uintptr, 1<<20)
			n = runtime.Callers(0, big)
		}
		return n
	}
	e.Set(types.Symbol{Val: "depth!"}, types.Func{Fn: func(ctx context.Context, a []types.MalType) (types.MalType, error) {
		d := pcs()
		m.mu.Lock()
		m.base = append(m.base, d)
		m.mu.Unlock()
		return d, nil
	}})
	e.Set(types.Symbol{Val: "depth-iter!"}, types.Func{Fn: func(ctx context.Context, a []types.MalType) (types.MalType, error) {
		d := pcs()
		m.mu.Lock()
		if len(m.iters) < 100000 {
			m.iters = append(m.iters, d)
		}
		m.mu.Unlock()
		return nil, nil
	}})
}

var c08Constructs = []string{"fn-last", "fn-multi", "do", "let-list", "let-vector", "if-then", "if-else", "cond", "and", "or", "quasiquote-unquote", "let-3", "if-one-armed", "do-single", "and-single", "or-single", "fn-rest-params", "nonsymbol-head", "let-empty", "fn-5-params", "cond-one-clause"}

// c08Tail wraps call (an expression) in d tail-position constructs.
func c08Tail(r *rand.Rand, call string, d int, used map[string]bool) string {
	if d == 0 {
		return call
	}
	inner := c08Tail(r, call, d-1, used)
	k := c08Constructs[r.Intn(len(c08Constructs))]
	used[k] = true
	switch k {
	case "fn-last":
		return "((fn () " + inner + "))"
	case "fn-multi":
		return "((fn (z) (depth-iter!) z " + inner + ") 1)"
	case "do":
		return "(do 1 (depth-iter!) " + inner + ")"
	case "let-list":
		return "(let (t 1) " + inner + ")"
	case "let-vector":
		return "(let [t 1 u t] u " + inner + ")"
	case "let-3":
		return "(let (t 1 u 2 w (+ t u)) (depth-iter!) " + inner + ")"
	case "if-then":
		return "(if true " + inner + " :no)"
	case "let-empty":
		if r.Intn(2) == 0 {
			return "(let () " + inner + ")"
		}
		return "(let [] (depth-iter!) " + inner + ")"
	case "fn-5-params":
		return "((fn (a b c d e) " + inner + ") 1 2 3 4 5)"
	case "cond-one-clause":
		return "(cond :else " + inner + ")"
	case "if-one-armed":
		return "(if true " + inner + ")"
	case "do-single":
		return "(do " + inner + ")"
	case "and-single":
		return "(and " + inner + ")"
	case "or-single":
		return "(or " + inner + ")"
	case "fn-rest-params":
		return "((fn (& r) " + inner + ") 1 2)"
	case "nonsymbol-head":
		return "((if true (fn () " + inner + ") nil))"
	case "if-else":
		return "(if nil :no " + inner + ")"
	case "cond":
		switch r.Intn(3) {
		case 0:
			return "(cond true " + inner + ")"
		case 1:
			return "(cond false 1 nil 2 :else " + inner + ")"
		default:
			return "(cond (= 1 2) :no true " + inner + " :else 3)"
		}
	case "and":
		return "(and true 1 " + inner + ")"
	case "or":
		return "(or false nil " + inner + ")"
	default:
		return "(quasiquote (unquote " + inner + "))"
	}
}

// c08Shape builds the function definitions of one loop shape.
func c08Shape(r *rand.Rand, maxD int) (defs string, used map[string]bool, nfn int) {
	used = map[string]bool{}
	nfn = 1 + r.Intn(3)
	var sb strings.Builder
	sb.WriteString("(do\n(defmacro c08-defn (fn (name params body) (quasiquote (def (unquote name) (fn (unquote params) (unquote body))))))\n")
	for i := 0; i < nfn; i++ {
		next := fmt.Sprintf("f%d", (i+1)%nfn)
		call := fmt.Sprintf("(%s (- n 1))", next)
		body := c08Tail(r, call, 1+r.Intn(maxD), used)
		if style := r.Intn(8); style < 3 {
			// the function is not written as a literal (fn …) at its definition site: it is built by a macro, by eval of
			// a constructed list, or read from a string at run time
			fnBody := fmt.Sprintf("(if (< n 1) (depth!) %s)", body)
			switch style {
			case 0:
				used["def-via-macro"] = true
				fmt.Fprintf(&sb, "(c08-defn f%d (n) %s)\n", i, fnBody)
			case 1:
				used["def-via-eval-of-list"] = true
				fmt.Fprintf(&sb, "(def f%d (eval (list (quote fn) (list (quote n)) (quote %s))))\n", i, fnBody)
			default:
				used["def-via-read-string"] = true
				fmt.Fprintf(&sb, "(def f%d (eval (read-string %q)))\n", i, "(fn (n) "+fnBody+")")
			}
			continue
		}
		switch r.Intn(4) {
		case 0:
			// base case in the then branch
			fmt.Fprintf(&sb, "(def f%d (fn (n) (if (< n 1) (depth!) %s)))\n", i, body)
		case 1:
			fmt.Fprintf(&sb, "(def f%d (fn (n) (do (depth-iter!) (if (> n 0) %s (depth!)))))\n", i, body)
		case 2:
			fmt.Fprintf(&sb, "(def f%d (fn (n) (cond (< n 1) (depth!) :else %s)))\n", i, body)
		default:
			// the recursion goes through a closure held in a let
			fmt.Fprintf(&sb, "(def f%d (fn (n) (let (k (fn (m) (if (< m 1) (depth!) %s))) (k n))))\n", i, strings.ReplaceAll(body, "(- n 1)", "(- m 1)"))
		}
	}
	sb.WriteString(")")
	return sb.String(), used, nfn
}

type c08CtxKey struct{}

func runC08(c *fw.Ctx) {
	base := hx.NewStdEnv()
	r := c.Rand("shapes")
	maxD := c.Pick(4, 6)
	nShapes := c.PerShard(c.Pick(320, 8000))
	nLong := c.PerShard(c.Pick(32, 320))
	for i := 0; i < nShapes; i++ {
		defs, used, nfn := c08Shape(r, maxD)
		long := i < nLong
		c.Case(fmt.Sprintf("shape-%d", i), defs, func() {
			mon := &c08Mon{}
			env := hx.Sub(base)
			if used["def-via-eval-of-list"] || used["def-via-read-string"] {
				// eval evaluates in the environment it was loaded into: such shapes get an environment of their own
				env = hx.NewStdEnv()
			}
			c08Install(env, mon)
			// the evaluation context: none of these ever ends during the run; the loop must not care which it is
			evalCtx := context.Background()
			switch i % 3 {
			case 1:
				var cf context.CancelFunc
				evalCtx, cf = context.WithTimeout(context.Background(), time.Hour)
				defer cf()
				used["ctx-with-deadline"] = true
			case 2:
				dctx, cf1 := context.WithDeadline(context.Background(), time.Now().Add(2*time.Hour))
				defer cf1()
				var cf2 context.CancelFunc
				evalCtx, cf2 = context.WithCancel(context.WithValue(dctx, c08CtxKey{}, 1))
				defer cf2()
				used["ctx-child-of-deadline"] = true
			}
			if i%4 == 3 {
				// history: a debugger was attached earlier in this process, stepped through one evaluation with one
				// of the four commands and was detached again; tail calls made afterwards must not remember it
				// (seeded C08-m13: a flag set while stepping and never cleared)
				cmd := []debuggertypes.Command{debuggertypes.NoOp, debuggertypes.Next, debuggertypes.In, debuggertypes.Out}[(i/4)%4]
				consulted := 0
				lisp.Stepper = func(types.MalType, types.EnvType) debuggertypes.Command { consulted++; return cmd }
				o := hx.EvalText(context.Background(), "(do (let [a 1] (if a (+ a 1) 0)) ((fn [x] (do x)) 2))", env)
				lisp.Stepper = nil
				if o.Err != nil || o.Panicked || consulted == 0 {
					c.Violate(fw.Violation{Key: "harness", What: fmt.Sprint("the stepped warm-up evaluation failed or never consulted the stepper: ", o.Err, o.PanicMsg, " consulted=", consulted)})
					return
				}
				used["after-stepper-detached"] = true
				c.Count("stepper_consultations_before_detaching", consulted)
			}
			if o := hx.EvalText(context.Background(), defs, env); o.Err != nil || o.Panicked {
				c.Violate(fw.Violation{Key: "shape-rejected", What: fmt.Sprint("definitions failed: ", o.Err, o.PanicMsg)})
				return
			}
			var depths []int
			slow := false
			var perIter time.Duration
			for _, n := range []int{3, 30, 300, 3000} {
				if n == 3000 && slow {
					n = 900 // shapes dominated by macro expansion: keep the largest run affordable (sizing only, no verdict)
				}
				tStart := time.Now()
				// make n a multiple of the number of functions plus a fixed remainder so that the base case is
				// always reached in the same function
				nn := n - n%nfn
				mon.mu.Lock()
				mon.base, mon.iters = nil, nil
				mon.mu.Unlock()
				o := hx.EvalText(evalCtx, fmt.Sprintf("(f0 %d)", nn), env)
				if o.Panicked || o.Err != nil {
					c.Violate(fw.Violation{Key: "loop-failed", What: fmt.Sprintf("(f0 %d) failed: %v %s", nn, o.Err, o.PanicMsg)})
					return
				}
				if len(mon.base) != 1 {
					c.Violate(fw.Violation{Key: "harness", What: fmt.Sprintf("base case reported %d times", len(mon.base))})
					return
				}
				depths = append(depths, mon.base[0])
				if n == 300 && time.Since(tStart) > 60*time.Millisecond {
					slow = true
				}
				if n >= 900 {
					perIter = time.Since(tStart) / time.Duration(nn)
				}
				// per-iteration depths: group by (iteration index mod period) is unnecessary - each depth-iter! site is
				// reached at the same relative nesting in every iteration, so the multiset per site must not grow with n.
				// Check monotone growth: the maximum over the run must equal the maximum over the first period.
				if len(mon.iters) > 4*nfn*8 {
					period := len(mon.iters) / (nn / nfn)
					if period > 0 {
						maxFirst, maxAll := 0, 0
						for k, d := range mon.iters {
							if k < 2*period && d > maxFirst {
								maxFirst = d
							}
							if d > maxAll {
								maxAll = d
							}
						}
						if maxAll > maxFirst {
							c.Violate(fw.Violation{Key: "depth-grows-within-run:" + c08Key(used), What: fmt.Sprintf("host stack depth grows along the iterations of (f0 %d): max %d in the first two rounds, %d overall", nn, maxFirst, maxAll)})
							return
						}
					}
				}
			}
			c.Count("shapes", 1)
			c.Count("depth_observations", len(depths))
			for k := range used {
				c.Count("construct."+k, 1)
			}
			c.Distinct("shapes", defs)
			for _, d := range depths[1:] {
				if d != depths[0] {
					c.Violate(fw.Violation{Key: "depth-depends-on-n:" + c08Key(used), What: fmt.Sprintf("host stack depth at the base case for n=3,30,300,3000 (900 for slow shapes): %v (must be identical)", depths)})
					return
				}
			}
			if long {
				// 10^6 iterations under a 4 MiB stack cap: dies with a fatal stack overflow if elimination is lost
				old := debug.SetMaxStack(4 << 20)
				done := make(chan hx.Outcome, 1)
				// up to 10^6 iterations, sized to about 3 s (quick) / 10 s (thorough) from the measured per-iteration cost (never fewer than 30000:
				// without elimination 30000 levels already need > 50 MiB of stack against the 4 MiB cap)
				iters := 1000000
				if perIter > 0 {
					if n := int(time.Duration(c.Pick(3, 10)) * time.Second / perIter); n < iters {
						iters = n
					}
				}
				if iters < 30000 {
					iters = 30000
				}
				c.Count("long_run_iterations", iters)
				go func() { done <- hx.EvalText(evalCtx, fmt.Sprintf("(f0 %d)", iters-iters%nfn), env) }()
				o := <-done
				debug.SetMaxStack(old)
				if o.Panicked || o.Err != nil {
					c.Violate(fw.Violation{Key: "long-run-failed", What: fmt.Sprintf("long run failed: %v %s", o.Err, o.PanicMsg)})
					return
				}
				c.Count("long_runs_completed", 1)
			}
			if i == 0 {
				c.Sample(defs)
			}
		})
	}
}

func c08Key(used map[string]bool) string {
	var l []string
	for _, k := range c08Constructs {
		if used[k] {
			l = append(l, k)
		}
	}
	pre := ""
	if used["ctx-with-deadline"] || used["ctx-child-of-deadline"] {
		pre = "deadline-ctx:"
	}
	if used["after-stepper-detached"] {
		pre = "after-stepper-detached:" + pre
	}
	for _, k := range []string{"def-via-macro", "def-via-eval-of-list", "def-via-read-string"} {
		if used[k] {
			pre += k + ":"
			break
		}
	}
	if len(l) > 3 {
		return pre + fmt.Sprintf("%d-constructs", len(l))
	}
	return pre + strings.Join(l, "+")
}

func init() {
	fw.Register(&fw.Property{
		ID:     "C08",
		Run:    runC08,
		Rule:   "seeded loop shapes: 1-3 mutually recursive functions whose recursive call sits in tail position under 1-4 (quick) / 1-6 (thorough) nested constructs from {fn body last form, fn with several body forms, do, let with list/vector/3 bindings, if then, if else, one-armed if, cond (first/last/middle clause), and, or (several operands and single operand), single-form do, closures with & rest parameters, non-symbol call heads, quasiquote-unquote}, base case in then/else/cond branch or recursion through a closure held in a let; a harness builtin reports runtime.Callers depth at the base case for n = 3, 30, 300, 3000 (must be identical) and at instrumented points of every iteration (must not grow); a subset also runs 10^6 iterations under debug.SetMaxStack(4 MiB) in the worker process; distinct = distinct shape texts; functions may be non-literal at their definition site (built by a user defn macro, by eval of a constructed list, by eval of read-string)",
		Assume: []string{"try bodies and handlers are not tail positions in the statement", "stepper mode deliberately recurses"},
		Finish: func(m *fw.Merged) {
			m.Floor("shapes", 200)
			m.Floor("long_runs_completed", 10)
			for _, k := range c08Constructs {
				m.Floor("construct."+k, 5)
			}
			m.Extra["constructs"] = m.CountsWithPrefix("construct.")
		},
	})
}
