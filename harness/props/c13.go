package props

import (
	"context"
	"fmt"
	"math/rand"
	"strings"

	"github.com/jig/lisp/types"

	"verifharness/canon"
	"verifharness/colmodel"
	"verifharness/fw"
	"verifharness/gen"
	"verifharness/hx"
)

// C13: collection builtins vs the sequence/map/set model.

type c13Item struct {
	expr  *canon.Node // lisp expression building the value on the real side
	model *canon.Node // the model's value
	class string      // boundary class (evidence)
}

func q(n *canon.Node) *canon.Node { return canon.Li(canon.Sy("quote"), n) }

func c13Fns() []c13Item {
	s, l := canon.Sy, canon.Li
	return []c13Item{
		{s("inc"), colmodel.FnNode("inc", func(a []*canon.Node) colmodel.Outcome {
			if len(a) != 1 || a[0].K != canon.Int {
				return colmodel.Outcome{K: colmodel.Error, Why: "inc of a non-integer"}
			}
			return colmodel.Outcome{K: colmodel.Value, V: canon.In(a[0].I + 1)}
		}), "fn:inc"},
		{l(s("fn"), l(s("x")), l(s("list"), s("x"))), colmodel.FnNode("wrap", func(a []*canon.Node) colmodel.Outcome {
			if len(a) != 1 {
				return colmodel.Outcome{K: colmodel.Error}
			}
			return colmodel.Outcome{K: colmodel.Value, V: canon.Li(a[0])}
		}), "fn:wrap"},
		{l(s("fn"), l(s("x")), canon.N()), colmodel.FnNode("constnil", func(a []*canon.Node) colmodel.Outcome {
			if len(a) != 1 {
				return colmodel.Outcome{K: colmodel.Error}
			}
			return colmodel.Outcome{K: colmodel.Value, V: canon.N()}
		}), "fn:constnil"},
		{l(s("fn"), l(s("&"), s("xs")), s("xs")), colmodel.FnNode("restlist", func(a []*canon.Node) colmodel.Outcome {
			return colmodel.Outcome{K: colmodel.Value, V: canon.Li(a...)}
		}), "fn:rest-list"},
		{s("count"), colmodel.FnNode("count", func(a []*canon.Node) colmodel.Outcome { return colmodel.Call("count", a) }), "fn:count"},
		{s("list"), colmodel.FnNode("list", func(a []*canon.Node) colmodel.Outcome { return colmodel.Call("list", a) }), "fn:list"},
		{s("+"), colmodel.FnNode("+", func(a []*canon.Node) colmodel.Outcome {
			if len(a) != 2 || a[0].K != canon.Int || a[1].K != canon.Int {
				return colmodel.Outcome{K: colmodel.Error}
			}
			return colmodel.Outcome{K: colmodel.Value, V: canon.In(a[0].I + a[1].I)}
		}), "fn:+"},
	}
}

func c13Pool() []c13Item {
	k := func(s string) string { return canon.Marker + s }
	in := canon.In
	data := []struct {
		v     *canon.Node
		class string
	}{
		{canon.N(), "nil"}, {canon.Li(), "empty-list"}, {canon.Ve(), "empty-vector"}, {canon.Ma(nil), "empty-map"}, {canon.Se(), "empty-set"},
		{canon.Li(in(1)), "list-1"}, {canon.Ve(in(1)), "vector-1"}, {canon.Li(in(1), in(2), in(3)), "list-3"}, {canon.Ve(in(1), in(2), in(3)), "vector-3"},
		{canon.Ma(map[string]*canon.Node{k("a"): in(1)}), "map-1-kw"}, {canon.Ma(map[string]*canon.Node{"a": in(1)}), "map-1-str"},
		{canon.Ma(map[string]*canon.Node{k("a"): in(1), k("b"): in(2), "c": canon.N()}), "map-3-nilval"},
		{canon.Ma(map[string]*canon.Node{k("a"): canon.Ke("b"), k("b"): canon.Ke("c")}), "map-chain"},
		{canon.Ma(map[string]*canon.Node{k("a"): canon.Ke("x"), k("b"): canon.Ke("x")}), "map-collide"},
		{canon.Ma(map[string]*canon.Node{k("a"): canon.Ke("b")}), "map-rename-onto-untouched"},
		{canon.Ma(map[string]*canon.Node{k("a"): in(1), k("b"): in(2)}), "map-2"},
		{canon.Se(k("a")), "set-1"}, {canon.Se("a", k("b")), "set-2"},
		{canon.Li(canon.Li(in(1)), canon.Ve(in(2), in(3))), "nested-seq"}, {canon.Ve(canon.Ve(in(1)), canon.Ma(map[string]*canon.Node{k("a"): canon.Ve(in(1), in(2))})), "nested-vec"},
		{canon.Ma(map[string]*canon.Node{k("a"): canon.Ma(map[string]*canon.Node{k("b"): in(2)})}), "nested-map"},
		{canon.Ma(map[string]*canon.Node{k("a"): canon.Ve(in(10), in(20))}), "map-of-vec"},
		{canon.Ve(k2("a"), k2("b")), "vector-of-keys"}, {canon.Li(canon.St("a"), k2("a")), "list-of-keys"}, {canon.Ve(k2("a")), "path-a"}, {canon.Ve(k2("a"), k2("b")), "path-ab"}, {canon.Ve(in(0)), "path-0"}, {canon.Ve(in(2), in(0)), "path-20"},
		{in(-1), "int-neg"}, {in(0), "int-0"}, {in(1), "int-1"}, {in(2), "int-2"}, {in(3), "int-len"}, {in(4), "int-len+1"}, {in(97), "int-97-rune-of-key-a"},
		{canon.St(""), "string-empty"}, {canon.St("abc"), "string"}, {canon.St("aé😀z"), "string-nonascii"},
		{canon.Ma(map[string]*canon.Node{k("a"): canon.N(), k("b"): in(2)}), "map-nil-under-a"}, {canon.St("a"), "string-a"}, {canon.Ke("a"), "kw-a"}, {canon.Ke("b"), "kw-b"}, {canon.Ke("zz"), "kw-absent"},
		{canon.Sy("a"), "symbol"}, {canon.Bo(true), "true"}, {canon.Bo(false), "false"},
	}
	var pool []c13Item
	for _, d := range data {
		e := d.v
		switch d.v.K {
		case canon.List, canon.Sym:
			e = q(d.v)
		}
		pool = append(pool, c13Item{e, d.v, d.class})
	}
	// vectors with spare capacity in their backing array
	s, l := canon.Sy, canon.Li
	pool = append(pool,
		c13Item{l(s("conj"), canon.Ve(in(1), in(2)), in(3)), canon.Ve(in(1), in(2), in(3)), "vector-spare-capacity"},
		c13Item{l(s("subvec"), canon.Ve(in(0), in(1), in(2), in(3)), in(1), in(3)), canon.Ve(in(1), in(2)), "subvector-window"},
		c13Item{l(s("rest"), canon.Ve(in(0), in(1), in(2))), canon.Li(in(1), in(2)), "rest-view"},
		c13Item{l(s("hash-map")), canon.Ma(nil), "empty-map-via-hash-map"},
		// empty collections by origin: the same value can be backed by a nil or a non-nil Go map/slice depending on
		// the builtin that produced it; every builtin must treat all of them alike (seeded C13-m15)
		c13Item{l(s("set"), canon.N()), canon.Se(), "empty-set-via-set-nil"},
		c13Item{l(s("set"), canon.Ve()), canon.Se(), "empty-set-via-set-empty-vector"},
		c13Item{l(s("hash-set")), canon.Se(), "empty-set-via-hash-set"},
		c13Item{l(s("dissoc"), canon.Se(k("a")), canon.Ke("a")), canon.Se(), "empty-set-via-dissoc"},
		c13Item{l(s("dissoc"), l(s("set"), canon.N()), canon.Ke("a")), canon.Se(), "empty-set-via-dissoc-of-set-nil"},
		c13Item{l(s("dissoc"), canon.Ma(map[string]*canon.Node{k("a"): in(1)}), canon.Ke("a")), canon.Ma(nil), "empty-map-via-dissoc"},
		c13Item{l(s("merge"), canon.Ma(nil), canon.Ma(nil)), canon.Ma(nil), "empty-map-via-merge"},
		c13Item{l(s("vector")), canon.Ve(), "empty-vector-via-vector"},
		c13Item{l(s("subvec"), canon.Ve(in(1)), in(0), in(0)), canon.Ve(), "empty-vector-via-subvec"},
		c13Item{l(s("list")), canon.Li(), "empty-list-via-list"},
		c13Item{l(s("rest"), canon.Ve(in(1))), canon.Li(), "empty-list-via-rest"},
		c13Item{l(s("rest"), canon.N()), canon.Li(), "empty-list-via-rest-nil"},
		c13Item{l(s("concat")), canon.Li(), "empty-list-via-concat"},
	)
	return pool
}

func k2(s string) *canon.Node { return canon.Ke(s) }

func c13KindSig(args []c13Item) string {
	var p []string
	for _, a := range args {
		p = append(p, a.class)
	}
	return strings.Join(p, ",")
}

func c13CoarseSig(args []*canon.Node) string {
	var p []string
	for _, a := range args {
		k := a.K.String()
		switch a.K {
		case canon.List, canon.Vec:
			if len(a.L) == 0 {
				k = "empty-" + k
			}
		case canon.Opaque:
			k = "fn"
		}
		p = append(p, k)
	}
	return strings.Join(p, ",")
}

// c13Judge evaluates (name args…) on the real interpreter and compares with the model.
// It returns the real value (when one was produced) for pipelines.
func c13Judge(c *fw.Ctx, env types.EnvType, name string, exprs []*canon.Node, models []*canon.Node, sig string) (real *canon.Node, ok bool, out colmodel.Outcome, goVal types.MalType) {
	form := canon.Li(append([]*canon.Node{canon.Sy(name)}, exprs...)...)
	ctx := context.Background()
	o := hx.Eval(ctx, canon.ToGo(form), env)
	out = colmodel.Call(name, models)
	c.Count("calls", 1)
	c.Count("builtin."+name, 1)
	input := canon.Render(form)
	if o.Panicked {
		c.Violate(fw.Violation{Key: "panic@" + o.Site, What: "builtin call panicked: " + o.PanicMsg, Input: input, Detail: o.Stack})
		return nil, false, out, nil
	}
	switch out.K {
	case colmodel.Unspecified:
		c.Count("outcome."+name+".unspecified", 1)
		if o.Err == nil {
			rv := canon.FromGo(o.Val)
			for _, f := range out.Forbid {
				if canon.Equal(rv, f) {
					c.Count("forbidden_results_seen", 1)
					c.Violate(fw.Violation{Key: name + ":" + sig + ":wrong-value-outside-domain", What: fmt.Sprintf("returned %s for an argument outside the domain (%s): an error is prescribed and this value is wrong under every reading", canon.Render(rv), out.Why), Input: input})
					return nil, false, out, nil
				}
			}
			if len(out.Forbid) > 0 {
				c.Count("outside_domain_calls_with_forbidden_results_checked", 1)
			}
			return rv, false, out, o.Val
		}
		if len(out.Forbid) > 0 {
			c.Count("outside_domain_calls_with_forbidden_results_checked", 1)
		}
		return nil, false, out, nil
	case colmodel.Error:
		c.Count("outcome."+name+".error", 1)
		if o.Err == nil {
			c.Violate(fw.Violation{Key: name + ":" + sig + ":value-for-error", What: fmt.Sprintf("returned %s where the statement prescribes an error (%s)", canon.Render(canon.FromGo(o.Val)), out.Why), Input: input})
		}
		return nil, false, out, nil
	}
	c.Count("outcome."+name+".value", 1)
	if o.Err != nil {
		c.Violate(fw.Violation{Key: name + ":" + sig + ":error-for-value", What: fmt.Sprintf("returned error %q where the model prescribes %s", o.Err.Error(), canon.Render(out.V)), Input: input})
		return nil, false, out, nil
	}
	rv := canon.FromGo(o.Val)
	same := canon.Equal(rv, out.V)
	if out.Unordered {
		same = colmodel.SameUnordered(rv, out.V)
	}
	if !same {
		c.Violate(fw.Violation{Key: name + ":" + sig + ":wrong-value", What: fmt.Sprintf("returned %s, the model prescribes %s", canon.Render(rv), canon.Render(out.V)), Input: input})
		return nil, false, out, nil
	}
	return rv, true, out, o.Val
}

var c13Arity = map[string][]int{
	"list": {0, 1, 2}, "vector": {0, 1, 2}, "hash-map": {0, 2, 3, 4}, "hash-set": {0, 1, 2}, "set": {1}, "range": {2}, "vec": {1}, "cons": {2}, "concat": {0, 1, 2, 3},
	"nth": {2}, "first": {1}, "rest": {1}, "count": {1}, "empty?": {1}, "conj": {1, 2, 3}, "seq": {1}, "map": {2}, "apply": {2, 3}, "take": {1, 2}, "take-last": {2},
	"drop": {2}, "drop-last": {1, 2}, "subvec": {2, 3}, "assoc": {1, 2, 3, 4}, "dissoc": {1, 2, 3}, "get": {2}, "contains?": {2}, "keys": {1}, "vals": {1}, "merge": {2},
	"rename-keys": {2}, "get-in": {2}, "assoc-in": {3}, "update": {3}, "update-in": {3},
	"nil?": {1}, "true?": {1}, "false?": {1}, "symbol?": {1}, "keyword?": {1}, "string?": {1}, "number?": {1}, "list?": {1}, "vector?": {1}, "map?": {1}, "set?": {1}, "sequential?": {1},
}

func clsInt(c string) bool { return strings.HasPrefix(c, "int-") }
func clsKey(c string) bool {
	return strings.HasPrefix(c, "kw-") || strings.HasPrefix(c, "string") || strings.HasPrefix(c, "int-")
}
func clsPath(c string) bool {
	return strings.HasPrefix(c, "path-") || c == "empty-vector" || c == "vector-of-keys" || clsKey(c)
}
func clsFew(c string) bool { return c == "nil" || c == "int-1" || c == "kw-b" || c == "vector-1" }

// c13Restrict narrows the candidates of arity-3 calls so that the boundary tuples are enumerated completely.
var c13Restrict = map[string][3]func(string) bool{
	"subvec":    {nil, clsInt, clsInt},
	"assoc":     {nil, clsKey, clsFew},
	"dissoc":    {nil, clsKey, clsKey},
	"assoc-in":  {nil, clsPath, clsFew},
	"update":    {nil, clsKey, nil},
	"update-in": {nil, clsPath, nil},
	"apply":     {nil, clsFew, nil},
}

var c13Unordered = map[string]bool{"rename-keys": true, "merge": true, "keys": true, "vals": true, "seq": true, "vec": true, "set": true, "hash-map": true, "conj": true, "assoc": true, "dissoc": true}

// which argument positions take a function
var c13FnPos = map[string]int{"map": 0, "apply": 0, "update": 2, "update-in": 2}

func runC13(c *fw.Ctx) {
	base := hx.NewStdEnv()
	pool := c13Pool()
	fns := c13Fns()
	r := c.Rand("tuples")
	idx := 0
	// (a) per builtin: exhaustive over the pool for arity <= 2, sampled for arity 3
	for _, name := range colmodel.Names {
		for _, ar := range c13Arity[name] {
			fpos, hasFn := c13FnPos[name]
			candidates := func(pos int) []c13Item {
				if hasFn && pos == fpos {
					return fns
				}
				if ar == 3 {
					if f, ok := c13Restrict[name]; ok && f[pos] != nil {
						var out []c13Item
						for _, it := range pool {
							if f[pos](it.class) {
								out = append(out, it)
							}
						}
						return out
					}
				}
				return pool
			}
			var tuples [][]c13Item
			switch ar {
			case 0:
				tuples = [][]c13Item{{}}
			case 1:
				for _, a := range candidates(0) {
					tuples = append(tuples, []c13Item{a})
				}
			case 2:
				for _, a := range candidates(0) {
					for _, b := range candidates(1) {
						tuples = append(tuples, []c13Item{a, b})
					}
				}
			case 4:
				// (builtin coll k v k): an incomplete trailing pair
				rg := c.RandGlobal("t4-" + name)
				var keys, few []c13Item
				for _, it := range pool {
					if clsKey(it.class) {
						keys = append(keys, it)
					}
					if clsFew(it.class) {
						few = append(few, it)
					}
				}
				if name == "hash-map" {
					// (hash-map k v k v): every pair of keys, equal keys included (the later value wins)
					for _, k1 := range keys {
						for _, k2 := range keys {
							tuples = append(tuples, []c13Item{k1, gen.Pick(rg, few), k2, gen.Pick(rg, few)})
						}
					}
					break
				}
				for _, a := range pool {
					for _, k1 := range keys {
						tuples = append(tuples, []c13Item{a, k1, gen.Pick(rg, few), gen.Pick(rg, keys)})
					}
				}
			case 3:
				n := c.Pick(6000, 100000)
				c0, c1, c2 := candidates(0), candidates(1), candidates(2)
				if len(c0)*len(c1)*len(c2) <= n {
					for _, a := range c0 {
						for _, b := range c1 {
							for _, d := range c2 {
								tuples = append(tuples, []c13Item{a, b, d})
							}
						}
					}
				} else {
					rg := c.RandGlobal("t3-" + name)
					for i := 0; i < n; i++ {
						tuples = append(tuples, []c13Item{gen.Pick(rg, c0), gen.Pick(rg, c1), gen.Pick(rg, c2)})
					}
				}
			}
			for _, t := range tuples {
				if c.Mine(idx) {
					exprs := make([]*canon.Node, len(t))
					models := make([]*canon.Node, len(t))
					for i, it := range t {
						exprs[i], models[i] = it.expr, it.model
						c.Count("boundary."+it.class, 1)
					}
					form := canon.Li(append([]*canon.Node{canon.Sy(name)}, exprs...)...)
					c.Case(fmt.Sprintf("t-%d", idx), canon.Render(form), func() {
						reps := 1
						if c13Unordered[name] {
							reps = 8 // results that could depend on Go map iteration order are sampled repeatedly
						}
						for rep := 0; rep < reps; rep++ {
							n0 := c.ViolationCount()
							c13Judge(c, hx.Sub(base), name, exprs, models, c13KindSig(t))
							if c.ViolationCount() != n0 {
								break
							}
						}
					})
					c.Distinct("shapes", name+"|"+c13KindSig(t))
				}
				idx++
			}
		}
	}
	// (b) random pipelines: each stage consumes earlier results
	for i := 0; i < c.PerShard(c.Pick(400000, 12000000)); i++ {
		c13Pipeline(c, base, r, pool, fns, i)
	}
}

func c13Pipeline(c *fw.Ctx, base types.EnvType, r *rand.Rand, pool, fns []c13Item, i int) {
	env := hx.Sub(base)
	type bound struct {
		name  string
		model *canon.Node
	}
	var vals []bound
	var log []string
	stages := 2 + r.Intn(5)
	id := fmt.Sprintf("pipe-%d", i)
	c.Case(id, "(pipeline; see detail on violation)", func() {
		for s := 0; s < stages; s++ {
			name := colmodel.Names[r.Intn(35)] // collection builtins (predicates are covered by the tuples)
			ars := c13Arity[name]
			ar := ars[r.Intn(len(ars))]
			// a third of the stages extend an earlier sequence result once more (two derivations from one parent)
			var again *bound
			if len(vals) > 0 && r.Intn(3) == 0 {
				var seqs []int
				for vi, b := range vals {
					if b.model.K == canon.Vec || b.model.K == canon.List {
						seqs = append(seqs, vi)
					}
				}
				if len(seqs) > 0 {
					again = &vals[seqs[r.Intn(len(seqs))]]
					name = []string{"conj", "conj", "concat", "cons", "assoc"}[r.Intn(5)]
					if name == "assoc" && (again.model.K != canon.Vec || len(again.model.L) == 0) {
						name = "conj"
					}
					ar = map[string]int{"conj": 2, "concat": 2, "cons": 2, "assoc": 3}[name]
				}
			}
			exprs := make([]*canon.Node, ar)
			models := make([]*canon.Node, ar)
			fpos, hasFn := c13FnPos[name]
			for p := 0; p < ar; p++ {
				if again != nil {
					tag := canon.In(100 + s)
					switch {
					case (name == "cons" && p == 1) || (name != "cons" && p == 0):
						exprs[p], models[p] = canon.Sy(again.name), again.model
					case name == "concat":
						exprs[p], models[p] = canon.Ve(tag), canon.Ve(tag)
					case name == "assoc" && p == 1:
						exprs[p], models[p] = canon.In(0), canon.In(0)
					default:
						exprs[p], models[p] = tag, tag
					}
					continue
				}
				switch {
				case hasFn && p == fpos:
					f := fns[r.Intn(len(fns))]
					exprs[p], models[p] = f.expr, f.model
				case len(vals) > 0 && r.Intn(3) != 0:
					b := vals[r.Intn(len(vals))]
					exprs[p], models[p] = canon.Sy(b.name), b.model
				default:
					it := pool[r.Intn(len(pool))]
					exprs[p], models[p] = it.expr, it.model
				}
			}
			form := canon.Li(append([]*canon.Node{canon.Sy(name)}, exprs...)...)
			log = append(log, fmt.Sprintf("(def s%d %s)", s, canon.Render(form)))
			nviolBefore := c.ViolationCount()
			rv, ok, out, gv := c13Judge(c, env, name, exprs, models, "pipeline:"+c13CoarseSig(models))
			if c.ViolationCount() != nviolBefore {
				c.AmendLastViolation(strings.Join(log, "\n"))
				return
			}
			c.Count("pipeline_stages", 1)
			// purity: no builtin call may have changed a value bound by an earlier stage
			for _, b := range vals {
				cur, err := env.Get(types.Symbol{Val: b.name})
				if err != nil || !canon.Equal(canon.FromGo(cur), b.model) {
					c.Violate(fw.Violation{Key: name + ":purity:earlier-value-changed", What: fmt.Sprintf("after this call the earlier result %s, which was %s, reads as %s", b.name, canon.Render(b.model), canon.Render(canon.FromGo(cur))), Input: strings.Join(log, "\n")})
					return
				}
			}
			c.Count("purity_rechecks", len(vals))
			if !ok || out.K != colmodel.Value {
				// unspecified or error: this pipeline ends here
				return
			}
			nm := fmt.Sprintf("s%d", s)
			// bind the very value the builtin returned under the stage name (no re-evaluation: unordered results)
			env.Set(types.Symbol{Val: nm}, gv)
			vals = append(vals, bound{nm, rv})
		}
		c.Count("pipelines_completed", 1)
	})
}

func init() {
	fw.Register(&fw.Property{
		ID:     "C13",
		Run:    runC13,
		Rule:   "(a) each of the 47 modelled builtins on every argument tuple of arity <= 2 over a pool of ~45 boundary values (nil, empty/one/three-element list/vector/map/set, nested collections, negative/zero/len/len+1 indices, keyword vs string keys of the same spelling, colliding rename maps, vectors with spare capacity, sub-vector windows) and sampled tuples of arity 3; functions from a pool of 6 modelled functions; (b) seeded pipelines of 2-6 builtins whose stages consume earlier results; the result is compared with the independent model: exact value and kind where prescribed (unordered results as multisets), an error where the statement prescribes one, anything non-panicking where the documents are silent; distinct = distinct (builtin, boundary-class tuple); hash-map with four arguments over every pair of keys (equal keys: the later value wins)",
		Assume: []string{"model rules: DESIGN.md Appendix A, written from README and tests/step*.mal", "Unspecified cells accept any non-panicking outcome"},
		Finish: func(m *fw.Merged) {
			for _, n := range colmodel.Names {
				m.Floor("builtin."+n, 10)
			}
			m.Floor("pipeline_stages", 1000)
			m.Extra["calls_per_builtin"] = m.CountsWithPrefix("builtin.")
			m.Extra["outcomes_per_builtin"] = m.CountsWithPrefix("outcome.")
			m.Extra["boundary_classes"] = m.CountsWithPrefix("boundary.")
		},
	})
}
