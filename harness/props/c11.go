package props

import (
	"context"
	"fmt"
	"math/rand"
	"os"
	"strings"
	"sync"
	"sync/atomic"
	"time"

	"github.com/jig/lisp"
	"github.com/jig/lisp/types"

	"verifharness/canon"
	"verifharness/fw"
	"verifharness/gen"
	"verifharness/hx"
	"verifharness/refmal"
)

// C11: concurrent evaluations on one environment are race-free and isolated.

// goTracer keeps one trace per goroutine.
type goTracer struct {
	mu sync.Mutex
	ev map[int64][]*canon.Node
}

func (t *goTracer) install(e types.EnvType) {
	e.Set(types.Symbol{Val: "trace!"}, types.Func{Fn: func(_ context.Context, a []types.MalType) (types.MalType, error) {
		if len(a) != 1 {
			return nil, fmt.Errorf("trace!: wrong number of arguments (%d instead of 1)", len(a))
		}
		g := goid()
		n := canon.FromGo(a[0])
		t.mu.Lock()
		t.ev[g] = append(t.ev[g], n)
		t.mu.Unlock()
		return a[0], nil
	}})
}

func (t *goTracer) of(g int64) []*canon.Node {
	t.mu.Lock()
	defer t.mu.Unlock()
	return t.ev[g]
}

// c11Deep: 16 evaluations that are each thousands of non-tail calls deep at the same moment (they sleep at the bottom)
// return what each returns alone: nothing an evaluation may use (depth, memory, bookkeeping) is shared between them.
func c11Deep(c *fw.Ctx, id string) {
	c.Case(id, "16 simultaneous evaluations, each 7000 non-tail calls deep", func() {
		e, _ := c11Env()
		def := "(def deep-rec (fn (n) (if (< n 1) (do (sleep 40) 0) (+ 1 (deep-rec (- n 1))))))"
		if o := hx.EvalText(context.Background(), def, e); o.Err != nil {
			panic(o.Err)
		}
		solo := hx.EvalText(context.Background(), "(deep-rec 7000)", e)
		if solo.Err != nil || solo.Panicked || solo.Val != 7000 {
			c.Count("deep_batches_discarded", 1) // alone it does not fit either: nothing to compare
			return
		}
		var wg sync.WaitGroup
		res := make([]hx.Outcome, 16)
		for i := range res {
			wg.Add(1)
			go func(i int) {
				defer wg.Done()
				ctx, cancel := context.WithTimeout(context.Background(), 120*time.Second)
				defer cancel()
				res[i] = hx.EvalText(ctx, "(deep-rec 7000)", e)
			}(i)
		}
		done := make(chan struct{})
		go func() { wg.Wait(); close(done) }()
		if !waitOrTimeout(done, 200*time.Second) {
			c.Violate(fw.Violation{Key: "blocked", What: "16 deep evaluations did not finish within 200 s", Detail: fw.GoroutineDump()})
			c.Runaway()
			return
		}
		c.Count("deep_batches", 1)
		for i, o := range res {
			if o.Panicked || o.Err != nil || o.Val != 7000 {
				c.Violate(fw.Violation{Key: "solo-vs-concurrent:deep-recursion", What: fmt.Sprintf("(deep-rec 7000) returns 7000 alone; as evaluation %d of 16 simultaneous ones it gave %v err %v %s", i, o.Val, o.Err, o.PanicMsg)})
				return
			}
		}
	})
}

func c11Env() (types.EnvType, *goTracer) {
	e := hx.NewStdEnv()
	// a host builtin that keeps a counter in the environment through Env.Update (read-modify-write under the scope's lock)
	e.Set(types.Symbol{Val: "host-counter"}, 0)
	e.Set(types.Symbol{Val: "bump-host-counter!"}, types.Func{Fn: func(_ context.Context, a []types.MalType) (types.MalType, error) {
		return e.Update(types.Symbol{Val: "host-counter"}, func(v types.MalType) (types.MalType, error) {
			n, _ := v.(int)
			return n + 1, nil
		})
	}})
	t := &goTracer{ev: map[int64][]*canon.Node{}}
	t.install(e)
	installFailers(e)
	// a shared global that every program only reads: a memoized library function called with many distinct arguments
	if o := hx.EvalText(context.Background(), "(def shared-memo-square (memoize (fn (x) (* x x))))", e); o.Err != nil || o.Panicked {
		panic(fmt.Sprint("preload: ", o.Err, o.PanicMsg))
	}
	return e, t
}

// c11Program builds thread i's program text: generated forms plus isolation probes that use the same local
// names in every thread with thread-tagged values.
func c11Program(pg *gen.PG, i int) (string, []*canon.Node) {
	forms := pg.Program()
	tag := 1000 + i
	sfx := fmt.Sprintf("_t%d", i)
	extra := fmt.Sprintf(`
  (def big%[1]s (vec (map (fn (k) %[2]d) (range 0 64))))
  (def check%[1]s (fn (x depth) (if (< depth 1) x (let (y x z (list x y)) (if (= y %[2]d) (check%[1]s (first z) (- depth 1)) (throw (list :foreign-local y %[2]d)))))))
  (trace! (check%[1]s %[2]d 40))
  (trace! (try (throw %[2]d) (catch e (if (= e %[2]d) (list :caught e) (throw (list :foreign-catch-variable e %[2]d))))))
  (trace! (or false nil %[2]d))
  (trace! (and true 1 %[2]d))
  (trace! (-> %[2]d (list 1) (conj 2)))
  (trace! (cond false 0 (= %[2]d %[2]d) (list :cond %[2]d) :else :no))
  (def memo%[1]s (memoize (fn (a) (+ a %[2]d))))
  (trace! (list (memo%[1]s 1) (memo%[1]s 1) (memo%[1]s 2)))
  (trace! (symbol? (gensym)))
  (def fut%[1]s (future (let (x %[2]d) (+ x 1))))
  (trace! @fut%[1]s)
  (trace! (count big%[1]s))
  (trace! (let (x %[2]d) ((fn (x) (let (x (+ x 1)) x)) x)))
  (def let-race%[1]s (fn (n acc) (if (< n 1) acc (let (fu (future (let (k 1) (+ k %[2]d))) lit1 1 lit2 "two" lit3 lit1 lit4 :four) (let-race%[1]s (- n 1) (+ acc (+ (- @fu %[2]d) lit3)))))))
  (trace! (list :let-with-future (let-race%[1]s 25 0)))
  (def nested-race%[1]s (fn (n acc) (if (< n 1) acc (let (k %[2]d fu (or nil (future (+ k 1))) lit1 1 lit2 "two" lit3 lit1 lit4 :four fv (let (j 2) (future (+ k (+ j lit3)))) lit5 5 lit6 6 lit7 lit5) (nested-race%[1]s (- n 1) (+ acc (+ (- @fu k) (+ (- @fv k) lit7))))))))
  (trace! (list :futures-made-in-scopes-nested-in-a-let-still-being-bound (nested-race%[1]s 25 0)))
  (def body-race%[1]s (fn (n x acc) (if (< n 1) acc (let (fu ((fn (p) (def fu-local (let (y 1) (future (+ p (+ x y))))) (def late1 1) (def late2 2) (def late3 (+ late1 late2)) (list fu-local late3)) n)) (body-race%[1]s (- n 1) x (+ acc (+ (- @(first fu) (+ n x)) (first (rest fu)))))))))
  (trace! (list :future-made-in-a-let-inside-a-function-body-that-goes-on-defining (body-race%[1]s 25 %[2]d 0)))
  (def rs-loop%[1]s (fn (n acc) (if (< n 1) acc (rs-loop%[1]s (- n 1) (+ acc (count (read-string (str "[:rk%[2]d-" n " rs%[2]d-" n " {:rm" n " #{:rs%[2]d}}]"))))))))
  (trace! (list :read-string-of-names-never-read-before (rs-loop%[1]s 30 0)))
  (def bump-loop%[1]s (fn (n) (if (< n 1) :bumped (do (bump-host-counter!) (bump-loop%[1]s (- n 1))))))
  (trace! (bump-loop%[1]s 40))
  (defmacro two-temps%[1]s (fn (a b) (let (x (gensym) y (gensym)) (list 'let (list x a y b) (list 'list x y)))))
  (def temps-loop%[1]s (fn (n bad) (if (< n 1) bad (temps-loop%[1]s (- n 1) (if (= (two-temps%[1]s 1 %[2]d) (list 1 %[2]d)) bad (+ bad 1))))))
  (trace! (list :gensym-temporaries-collided (temps-loop%[1]s 60 0)))
  (def thunk-loop%[1]s (fn (n bad) (if (< n 1) bad (thunk-loop%[1]s (- n 1) (+ bad ((fn () (def acc-local %[2]d) (if (= acc-local %[2]d) 0 1))))))))
  (trace! (list :def-in-thunk-saw-foreign-value (thunk-loop%[1]s 60 0)))
  (trace! (list :def-in-future-body @(future (do (def acc-local2 %[2]d) (sleep 1) (= acc-local2 %[2]d)))))
  (trace! (list :shared-memoized-function (reduce + 0 (map shared-memo-square (range %[3]d %[4]d)))))
  (trace! (list :params-outlive-a-mapped-call (map deref (map (fn (x) (let (t 1) (future (do (sleep 1) (+ x t))))) (list %[2]d (+ %[2]d 1) (+ %[2]d 2))))))
  (trace! (list :closures-from-a-mapped-call (map (fn (f) (f)) (map (fn (x) (let (t 2) (fn () (+ x t)))) (list %[2]d (+ %[2]d 5))))))
  (trace! (list :closure-from-apply ((apply (fn (x y) (try (throw 1) (catch e (fn () (list x y e))))) (list %[2]d :y)))))
`, sfx, tag, i*37, i*37+40)
	var sb strings.Builder
	sb.WriteString("(do\n")
	for _, f := range forms {
		sb.WriteString("  " + canon.Render(f) + "\n")
	}
	sb.WriteString(extra)
	sb.WriteString(")")
	return sb.String(), forms
}

type c11Run struct {
	val   *canon.Node
	class hx.ErrClass
	err   error
	trace []*canon.Node
	panic string
}

func c11Eval(e types.EnvType, tr *goTracer, ast types.MalType, active *int64, maxActive *int64) c11Run {
	ctx, cancel := context.WithTimeout(context.Background(), 60*time.Second)
	defer cancel()
	if active != nil {
		n := atomic.AddInt64(active, 1)
		for {
			m := atomic.LoadInt64(maxActive)
			if n <= m || atomic.CompareAndSwapInt64(maxActive, m, n) {
				break
			}
		}
	}
	g := goid()
	o := hx.Eval(ctx, ast, e)
	if active != nil {
		atomic.AddInt64(active, -1)
	}
	r := c11Run{err: o.Err, trace: tr.of(g)}
	if o.Panicked {
		r.panic = o.Site + ": " + o.PanicMsg
		return r
	}
	r.class = hx.Classify(o.Err)
	if o.Err == nil {
		r.val = canon.FromGo(o.Val)
	}
	return r
}

func c11Batch(c *fw.Ctx, r *rand.Rand, id string, T int) {
	pgs := make([]*gen.PG, T)
	texts := make([]string, T)
	for i := 0; i < T; i++ {
		pgs[i] = gen.NewPG(rand.New(rand.NewSource(r.Int63())), gen.ProgOpts{MaxDepth: 4, Macros: true, Try: true, Faults: 5, Suffix: fmt.Sprintf("_t%d", i)})
	}
	var allForms [][]*canon.Node
	for i := 0; i < T; i++ {
		for {
			t, forms := c11Program(pgs[i], i)
			if ref := runRef(forms, 100000); ref.Err != nil && (ref.Err.Class == refmal.Budget || ref.Err.Class == refmal.Malformed) {
				continue
			}
			texts[i] = t
			allForms = append(allForms, forms)
			break
		}
	}
	c.Case(id, fmt.Sprintf("%d threads; thread 0:\n%s", T, texts[0]), func() {
		// solo runs, each in its own identical environment
		solo := make([]c11Run, T)
		for i := 0; i < T; i++ {
			e, tr := c11Env()
			ast, err := lisp.READ(texts[i], types.NewCursorFile(fmt.Sprintf("t%d.lisp", i)), e)
			if err != nil {
				c.Violate(fw.Violation{Key: "read-error", What: err.Error(), Input: texts[i]})
				return
			}
			done := make(chan c11Run, 1)
			go func() { done <- c11Eval(e, tr, ast, nil, nil) }()
			solo[i] = <-done
			if solo[i].panic != "" {
				c.Count("solo_panicked", 1)
				return
			}
		}
		// concurrent run on one shared environment
		e, tr := c11Env()
		asts := make([]types.MalType, T)
		for i := range asts {
			asts[i], _ = lisp.READ(texts[i], types.NewCursorFile(fmt.Sprintf("t%d.lisp", i)), e)
		}
		var active, maxActive int64
		conc := make([]c11Run, T)
		var wg sync.WaitGroup
		start := make(chan struct{})
		for i := 0; i < T; i++ {
			wg.Add(1)
			go func(i int) {
				defer wg.Done()
				<-start
				conc[i] = c11Eval(e, tr, asts[i], &active, &maxActive)
			}(i)
		}
		// reader threads: a global is seen entirely or not at all
		stopReaders := make(chan struct{})
		var rwg sync.WaitGroup
		torn := make(chan string, 8)
		var transitions int64
		for k := 0; k < 2; k++ {
			rwg.Add(1)
			go func(k int) {
				defer rwg.Done()
				seen := map[int]bool{}
				for {
					select {
					case <-stopReaders:
						return
					default:
					}
					for j := 0; j < T; j++ {
						o := hx.EvalText(context.Background(), fmt.Sprintf("(try big_t%d (catch e :unbound))", j), e)
						if o.Panicked || o.Err != nil {
							select {
							case torn <- fmt.Sprintf("reader failed: %v %s", o.Err, o.PanicMsg):
							default:
							}
							return
						}
						n := canon.FromGo(o.Val)
						if n.K == canon.Kw && n.S == "unbound" {
							continue
						}
						okv := n.K == canon.Vec && len(n.L) == 64
						if okv {
							for _, x := range n.L {
								if x.K != canon.Int || x.I != 1000+j {
									okv = false
								}
							}
						}
						if !okv {
							select {
							case torn <- fmt.Sprintf("global big_t%d observed as %s (neither unbound nor the complete 64-element vector of %d)", j, canon.Render(n), 1000+j):
							default:
							}
							return
						}
						if !seen[j] {
							seen[j] = true
							atomic.AddInt64(&transitions, 1)
						}
					}
				}
			}(k)
		}
		// a global macro, defined before anything starts, is re-defined (same definition) over and over by one thread
		// while others use it: every use must see a macro (a definition is visible entirely or not at all)
		sharedDef := "(defmacro shared-unless (fn (c x) (list 'if c nil x)))"
		if o := hx.EvalText(context.Background(), sharedDef, e); o.Err != nil || o.Panicked {
			panic(fmt.Sprint("shared macro: ", o.Err, o.PanicMsg))
		}
		defAst, _ := lisp.READ(sharedDef, nil, e)
		useAst, _ := lisp.READ("(shared-unless false 42)", nil, e)
		var macroUses int64
		for k := 0; k < 3; k++ {
			rwg.Add(1)
			go func(k int) {
				defer rwg.Done()
				for {
					select {
					case <-stopReaders:
						return
					default:
					}
					if k == 0 {
						hx.Eval(context.Background(), defAst, e)
						continue
					}
					o := hx.Eval(context.Background(), useAst, e)
					atomic.AddInt64(&macroUses, 1)
					if o.Panicked || o.Err != nil || o.Val != 42 {
						select {
						case torn <- fmt.Sprintf("(shared-unless false 42), a macro re-defined concurrently with an identical definition, gave %s (err %v %s): the definition was observed half-made", canon.Render(canon.FromGo(o.Val)), o.Err, o.PanicMsg):
						default:
						}
						return
					}
				}
			}(k)
		}
		// the REPL completer's entry point, called while evaluations define globals
		rwg.Add(1)
		go func() {
			defer rwg.Done()
			for {
				select {
				case <-stopReaders:
					return
				default:
				}
				_ = e.Symbols(nil, "big")
				_ = e.Symbols(nil, "")
			}
		}()
		close(start)
		done := make(chan struct{})
		go func() { wg.Wait(); close(done) }()
		if !waitOrTimeout(done, 120*time.Second) {
			close(stopReaders)
			c.Violate(fw.Violation{Key: "blocked", What: "concurrent evaluations did not finish within 120 s", Detail: fw.GoroutineDump()})
			c.Runaway()
			return
		}
		close(stopReaders)
		rwg.Wait()
		// every thread whose program reaches the bump loop (known from its solo run: no error) bumps 40 times
		wantBumps := 0
		for i := 0; i < T; i++ {
			if solo[i].class == hx.ENone {
				wantBumps += 40
			}
		}
		if hc, err := e.Get(types.Symbol{Val: "host-counter"}); err != nil || hc != wantBumps {
			allSame := true
			for i := 0; i < T; i++ {
				if conc[i].class != solo[i].class {
					allSame = false
				}
			}
			if allSame {
				c.Violate(fw.Violation{Key: "host-update-lost", What: fmt.Sprintf("evaluations bumped a counter kept through Env.Update %d times in total; it reads %v", wantBumps, hc)})
				return
			}
		}
		// a def made inside a call's own scope (a thunk, the body of a future) is a local of that call: the shared
		// environment must not know the name afterwards
		for _, nm := range []string{"acc-local", "acc-local2"} {
			if v, err := e.Get(types.Symbol{Val: nm}); err == nil {
				c.Violate(fw.Violation{Key: "call-local-def-visible-in-shared-environment", What: fmt.Sprintf("%s, defined only inside parameterless function bodies, is bound to %v in the shared environment after the batch", nm, v)})
				return
			}
		}
		c.Count("batches", 1)
		c.Count("programs", T)
		c.Count(fmt.Sprintf("threads.%d", T), 1)
		c.Max("max_simultaneously_active_evaluations", maxActive)
		if int(maxActive)*2 >= T {
			c.Count("batches_with_overlap", 1)
		}
		c.Count("unbound_to_bound_transitions_observed", int(transitions))
		c.Count("uses_of_macro_under_redefinition", int(atomic.LoadInt64(&macroUses)))
		c.Distinct("shapes", texts[0])
		select {
		case m := <-torn:
			c.Violate(fw.Violation{Key: "torn-global", What: m})
			return
		default:
		}
		for i := 0; i < T; i++ {
			if solo[i].class == hx.ENone {
				c.Count("programs_completed_with_all_probes", 1)
			}
			in := fmt.Sprintf("thread %d of %d:\n%s", i, T, texts[i])
			if conc[i].panic != "" {
				c.Violate(fw.Violation{Key: "panic-under-concurrency", What: conc[i].panic, Input: in})
				return
			}
			if conc[i].class != solo[i].class {
				what := fmt.Sprintf("solo: [%s] %v; concurrent: [%s] %v", orVal(solo[i].class), solo[i].err, orVal(conc[i].class), conc[i].err)
				key := "solo-vs-concurrent:outcome"
				if conc[i].err != nil && strings.Contains(conc[i].err.Error(), "foreign") {
					key = "foreign-local-observed"
				}
				c.Violate(fw.Violation{Key: key, What: what, Input: in})
				return
			}
			if solo[i].val != nil && !c12SameModuloGensym(solo[i].val, conc[i].val) {
				c.Violate(fw.Violation{Key: "solo-vs-concurrent:value", What: fmt.Sprintf("solo %s, concurrent %s", canon.Render(solo[i].val), canon.Render(conc[i].val)), Input: in})
				return
			}
			if len(solo[i].trace) != len(conc[i].trace) {
				c.Violate(fw.Violation{Key: "solo-vs-concurrent:trace", What: fmt.Sprintf("solo has %d trace events, concurrent %d", len(solo[i].trace), len(conc[i].trace)), Input: in})
				return
			}
			for k := range solo[i].trace {
				if !c12SameModuloGensym(solo[i].trace[k], conc[i].trace[k]) {
					c.Violate(fw.Violation{Key: "solo-vs-concurrent:trace", What: fmt.Sprintf("trace event %d: solo %s, concurrent %s", k, canon.Render(solo[i].trace[k]), canon.Render(conc[i].trace[k])), Input: in})
					return
				}
			}
		}
	})
}

func runC11(c *fw.Ctx) {
	if f, err := os.OpenFile(os.DevNull, os.O_WRONLY, 0); err == nil {
		os.Stdout = f
	}
	r := c.Rand("batches")
	Ts := []int{2, 4, 8, 16}
	for i := 0; i < c.PerShard(c.Pick(160, 4000)); i++ {
		c11Batch(c, r, fmt.Sprintf("batch-%d", i), Ts[i%len(Ts)])
	}
	// deep simultaneous recursion: costly under the race detector (deep stacks), so one batch in the quick tier (shard 0)
	// and one per shard in the thorough tier
	if !c.Quick() || c.Shard == 0 {
		c11Deep(c, "deep-0")
	}
}

func init() {
	fw.Register(&fw.Property{
		ID:     "C11",
		Race:   true,
		Run:    runC11,
		Shards: func(tier string) int { return 8 },
		Rule:   "seeded batches of T in {2,4,8,16} programs evaluated simultaneously on one environment preloaded with all libraries, under the Go race detector: thread i runs a generated program (closures, macros, try/catch, quasiquote, 5% faults) over global names suffixed _ti plus isolation probes that use the same local names (x y z e) in every thread with thread-tagged values (deep let/parameter recursion, catch variable, or/and gensym temporaries, ->, cond, a private memoized function, a future, futures created in scopes nested inside a let that is still being bound (through or / an inner let) and in a let inside a function body that goes on defining locals) and defines a 64-element tagged vector; two reader threads poll every thread's vector (unbound or complete); each thread's result and per-goroutine trace must equal its solo run in an identical environment (modulo gensym numbering); distinct = distinct thread-0 program texts; a def inside a parameterless function body and inside a future body (same name in every program) must read back its own value and leave the shared environment without that name",
		Assume: []string{"no Stepper installed (process-wide by design)", "registration of builtins happens before evaluation starts"},
		Finish: func(m *fw.Merged) {
			m.Floor("batches", 20)
			m.Floor("unbound_to_bound_transitions_observed", 10)
			if m.Counts["programs"] > 0 && m.Counts["programs_completed_with_all_probes"]*2 < m.Counts["programs"] {
				m.Inconclusive = append(m.Inconclusive, fmt.Sprintf("only %d of %d programs ran to the end of their isolation probes", m.Counts["programs_completed_with_all_probes"], m.Counts["programs"]))
			}
			if m.Counts["batches"] > 0 && m.Counts["batches_with_overlap"]*2 < m.Counts["batches"] {
				m.Inconclusive = append(m.Inconclusive, fmt.Sprintf("only %d of %d batches reached T/2 simultaneously active evaluations", m.Counts["batches_with_overlap"], m.Counts["batches"]))
			}
			m.Extra["thread_counts"] = m.CountsWithPrefix("threads.")
		},
	})
}
