package props

import (
	"context"
	"errors"
	"fmt"
	"strings"
	"time"

	"github.com/jig/lisp"
	"github.com/jig/lisp/lib/call"
	"github.com/jig/lisp/types"

	"verifharness/canon"
	"verifharness/fw"
	"verifharness/hx"
	"verifharness/refmal"
)

// installFailers registers the harness builtins that fail with Go errors or panic, through lib/call
// (so that the binder's own recover/convert path is the one exercised).
func installFailers(e types.EnvType) {
	call.CallOverrideFN(e, "fail!", func() (types.MalType, error) { return nil, hx.ErrSentinel })
	call.CallOverrideFN(e, "fail2!", func() (types.MalType, error) { return nil, hx.ErrSentinel2 })
	call.CallOverrideFN(e, "panic-err!", func() (types.MalType, error) { panic(hx.ErrSentinel) })
	call.CallOverrideFN(e, "panic-val!", func(v types.MalType) (types.MalType, error) { panic(v) })
	// registered as plain Go function values, without the binder (and so without its recover)
	e.Set(types.Symbol{Val: "raw-panic-runtime!"}, types.Func{Fn: func(context.Context, []types.MalType) (types.MalType, error) {
		var none []int
		idx := len(none) + 3
		return none[idx], nil
	}})
	e.Set(types.Symbol{Val: "raw-panic-err!"}, types.Func{Fn: func(context.Context, []types.MalType) (types.MalType, error) { panic(hx.ErrSentinel) }})
	e.Set(types.Symbol{Val: "raw-fail!"}, types.Func{Fn: func(context.Context, []types.MalType) (types.MalType, error) { return nil, hx.ErrSentinel }})
}

// progText renders top-level forms as one (do …) text, one form per line.
func progText(forms []*canon.Node) string {
	var sb strings.Builder
	sb.WriteString("(do\n")
	for _, f := range forms {
		sb.WriteString("  ")
		sb.WriteString(canon.Render(f))
		sb.WriteString("\n")
	}
	sb.WriteString(")")
	return sb.String()
}

// realRun is the observable outcome of one evaluation of the real interpreter.
type realRun struct {
	Val      *canon.Node
	Err      error
	Class    hx.ErrClass
	Thrown   *canon.Node
	Trace    []*canon.Node
	Panicked bool
	PanicMsg string
	Site     string
	Stack    string
	Env      types.EnvType
}

// diffBase is a preloaded read-only base environment plus tracer, reused across programs.
type diffBase struct {
	base   types.EnvType
	tracer *hx.Tracer
	ended  bool // evaluate under a context that was cancelled before the evaluation started (C18)
}

func newDiffBase() *diffBase {
	b := &diffBase{base: hx.NewStdEnv(), tracer: &hx.Tracer{}}
	hx.InstallTrace(b.base, b.tracer)
	installFailers(b.base)
	return b
}

// runReal evaluates an AST (already a Go value) in a fresh scope under the base.
func (b *diffBase) runReal(ast types.MalType) realRun {
	b.tracer.Reset()
	e := hx.Sub(b.base)
	ctx, cancel := context.WithTimeout(context.Background(), 20*time.Second)
	defer cancel()
	if b.ended {
		cancel()
	}
	o := hx.Eval(ctx, ast, e)
	rr := realRun{Err: o.Err, Panicked: o.Panicked, PanicMsg: o.PanicMsg, Site: o.Site, Stack: o.Stack, Trace: b.tracer.Snapshot(), Env: e}
	if o.Panicked {
		return rr
	}
	if o.Err != nil {
		rr.Class = hx.Classify(o.Err)
		if v, ok := hx.ErrorValue(o.Err); ok && rr.Class == hx.EThrown {
			rr.Thrown = canon.FromGo(v)
		}
	} else {
		rr.Val = canon.FromGo(o.Val)
	}
	return rr
}

// refRun is the reference interpreter's outcome.
type refRun struct {
	Val   *canon.Node
	Err   *refmal.Err
	Trace []*canon.Node
	It    *refmal.Interp
	Env   *refmal.Env
}

func runRef(forms []*canon.Node, budget int) refRun {
	it := refmal.New(budget)
	env := refmal.NewEnv(it.Root)
	prog := canon.Li(append([]*canon.Node{canon.Sy("do")}, forms...)...)
	v, err := it.Eval(prog, env)
	return refRun{Val: v, Err: err, Trace: it.Trace, It: it, Env: env}
}

func refClass(e *refmal.Err) hx.ErrClass {
	if e == nil {
		return hx.ENone
	}
	switch e.Class {
	case refmal.Unbound:
		return hx.EUnbound
	case refmal.NotCallable:
		return hx.ENotCallable
	case refmal.Arity:
		return hx.EArity
	case refmal.Thrown:
		return hx.EThrown
	}
	return hx.EBuiltin
}

func traceDiff(a, b []*canon.Node) string {
	n := len(a)
	if len(b) < n {
		n = len(b)
	}
	for i := 0; i < n; i++ {
		if !canon.EqualWild(a[i], b[i]) {
			return fmt.Sprintf("first difference at event %d: real %s vs model %s (real has %d events, model %d)", i, canon.Render(a[i]), canon.Render(b[i]), len(a), len(b))
		}
	}
	if len(a) != len(b) {
		return fmt.Sprintf("real has %d events, model %d (common prefix equal); next: real %v model %v", len(a), len(b), tail1(a, n), tail1(b, n))
	}
	return ""
}

func tail1(l []*canon.Node, n int) string {
	if len(l) > n {
		return canon.Render(l[n])
	}
	return "-"
}

// compareRuns judges the real outcome against the model; returns "" or a description plus a finding key.
func compareRuns(rr realRun, ref refRun, names []string) (key, what string) {
	if rr.Panicked {
		return "panic@" + rr.Site, "EVAL panicked: " + rr.PanicMsg
	}
	rc, mc := rr.Class, refClass(ref.Err)
	if d := traceDiff(rr.Trace, ref.Trace); d != "" {
		return "trace", fmt.Sprintf("ordered side effects differ: %s; real outcome %s, model outcome %s", d, outcomeStr(rr), refOutcomeStr(ref))
	}
	if rc != mc {
		return fmt.Sprintf("outcome:%s-vs-%s", orVal(rc), orVal(mc)), fmt.Sprintf("real outcome %s, model outcome %s", outcomeStr(rr), refOutcomeStr(ref))
	}
	switch {
	case ref.Err == nil:
		if !canon.EqualWild(rr.Val, ref.Val) {
			return "value", fmt.Sprintf("result differs: real %s, model %s", canon.Render(rr.Val), canon.Render(ref.Val))
		}
	case ref.Err.Class == refmal.Thrown:
		if rr.Thrown == nil || !canon.EqualWild(rr.Thrown, ref.Err.Thrown) {
			got := "<none>"
			if rr.Thrown != nil {
				got = canon.Render(rr.Thrown)
			}
			return "thrown-value", fmt.Sprintf("thrown value arrived changed at the Go caller: real ErrorValue %s, model %s", got, canon.Render(ref.Err.Thrown))
		}
	case ref.Err.Class == refmal.Unbound:
		// the name is compared only when this tree's wording names the symbol (the statement does not demand it)
		if name, named := hx.UnboundName(rr.Err); named && name != ref.Err.Sym {
			return "unbound-name", fmt.Sprintf("unbound symbol differs: real %q, model %s", rr.Err.Error(), ref.Err.Sym)
		}
	}
	if ref.Err != nil && ref.Err.Sentinel != "" {
		want := hx.ErrSentinel
		if ref.Err.Sentinel == "S2" {
			want = hx.ErrSentinel2
		}
		if !errors.Is(rr.Err, want) {
			return "errors.Is", fmt.Sprintf("Go error no longer reachable with errors.Is at the Go caller: %v", rr.Err)
		}
	}
	// final bindings of the program scope
	for _, n := range names {
		rv, rerr := rr.Env.Get(types.Symbol{Val: n})
		mv, mok := ref.Env.Own()[n]
		if !mok {
			// the model did not bind it in the program scope: the real one must not have it either (def must not leak)
			if rerr == nil {
				if _, inBase := lookupOwn(rr.Env, n); inBase {
					return "binding-leak", fmt.Sprintf("name %s is bound in the program scope after the run (value %s) but the definition prescribes no such binding", n, canon.Render(canon.FromGo(rv)))
				}
			}
			continue
		}
		if rerr != nil {
			return "binding-missing", fmt.Sprintf("name %s should be bound to %s after the run but is unbound", n, canon.Render(mv))
		}
		if !canon.EqualWild(canon.FromGo(rv), mv) {
			return "binding-value", fmt.Sprintf("final binding of %s differs: real %s, model %s", n, canon.Render(canon.FromGo(rv)), canon.Render(mv))
		}
	}
	return "", ""
}

// lookupOwn tells whether name is bound in exactly this scope (not an outer one).
func lookupOwn(e types.EnvType, name string) (types.MalType, bool) {
	f := e.Find(types.Symbol{Val: name})
	if f == nil || f != e {
		return nil, false
	}
	v, _ := e.Get(types.Symbol{Val: name})
	return v, true
}

func orVal(c hx.ErrClass) string {
	if c == hx.ENone {
		return "value"
	}
	return string(c)
}

func outcomeStr(rr realRun) string {
	if rr.Err != nil {
		return fmt.Sprintf("error[%s] %q", rr.Class, rr.Err.Error())
	}
	return "value " + canon.Render(rr.Val)
}

func refOutcomeStr(r refRun) string {
	if r.Err != nil {
		return "error " + r.Err.String()
	}
	return "value " + canon.Render(r.Val)
}

// diffProgram runs one program on both interpreters. ok=false when the model discarded it.
func diffProgram(c *fw.Ctx, b *diffBase, id string, forms []*canon.Node, names []string, prefix string) (ran bool) {
	text := progText(forms)
	defer func() {
		if c.Only != "" && c.Only != id {
			// replay of a later case of the same program (e.g. a relation check): treat as runnable iff the model accepts it
			ref := runRef(forms, 200000)
			ran = !(ref.Err != nil && (ref.Err.Class == refmal.Malformed || ref.Err.Class == refmal.Budget))
		}
	}()
	c.Case(id, text, func() {
		ref := runRef(forms, 200000)
		if ref.Err != nil && (ref.Err.Class == refmal.Malformed || ref.Err.Class == refmal.Budget) {
			c.Count("discarded."+string(ref.Err.Class), 1)
			return
		}
		ast, err := lisp.READ(text, types.NewCursorFile("prog.lisp"), nil)
		if err != nil {
			c.Violate(fw.Violation{Key: "read-error", What: "generated well-formed program rejected by READ: " + err.Error()})
			return
		}
		rr := b.runReal(ast)
		ran = true
		c.Count("programs", 1)
		c.Count("outcome."+orVal(refClass(ref.Err)), 1)
		if len(ref.Trace) > 0 {
			c.Count("programs_with_trace", 1)
			c.Distinct("shapes", canon.Shape(canon.Li(forms...)))
		}
		c.Count("trace_events", len(ref.Trace))
		c.Max("max_nesting", int64(ref.It.MaxDepth))
		c.Count("macro_expansions", ref.It.MacroExpansions)
		c.Count("finally_runs", ref.It.FinallyRuns)
		if key, what := compareRuns(rr, ref, names); key != "" {
			c.Violate(fw.Violation{Key: prefix + key, What: what, Detail: rr.Stack})
		}
	})
	return ran
}
