package props

import (
	"context"
	"errors"
	"fmt"
	"os"
	"sort"
	"strings"
	"time"

	"github.com/jig/lisp"
	"github.com/jig/lisp/lib/call"
	"github.com/jig/lisp/lisperror"
	"github.com/jig/lisp/types"

	"verifharness/canon"
	"verifharness/fw"
	"verifharness/gen"
	"verifharness/hx"
)

// C04: evaluation never panics into the host; every failure is a returned, catchable error.

var c04Heads = []string{"def", "let", "quote", "quasiquoteexpand", "quasiquote", "unquote", "splice-unquote", "defmacro", "macroexpand", "try", "catch", "finally", "do", "if", "fn"}

func c04Shapes() []*canon.Node {
	s, l, v := canon.Sy, canon.Li, canon.Ve
	return []*canon.Node{
		canon.N(), canon.In(1), canon.St("s"), canon.Ke("k"), s("x"), s("u"), s("&"), l(), l(s("x")), l(canon.In(1)), v(s("x")), v(s("&")), v(s("x"), s("&")),
		canon.Ma(map[string]*canon.Node{canon.Marker + "a": canon.In(1)}), l(s("if")), l(s("catch")), l(s("catch"), canon.In(1), canon.In(2)), l(s("catch"), s("e")), l(s("catch"), s("e"), canon.In(1)),
		l(s("finally")), l(s("finally"), canon.In(1)), l(s("unquote")), l(s("splice-unquote")), l(s("unquote"), s("x")), l(s("fn")), l(s("fn"), l(s("a")), s("a")),
		l(s("throw"), canon.In(1)), l(s("x"), s("&"), s("y")), canon.Se(canon.Marker + "a"),
	}
}

// c04Run evaluates one AST in the four situations and reports escaping panics.
func c04Run(c *fw.Ctx, base types.EnvType, id string, ast types.MalType, text string, class string, withFuture bool, textRoute ...bool) {
	isText := len(textRoute) > 0 && textRoute[0]
	c.Case(id, text, func() {
		c.Count("asts", 1)
		c.Distinct("shapes", class)
		mk := func() types.EnvType {
			e := hx.Sub(base)
			e.Set(types.Symbol{Val: "x"}, 1)
			return e
		}
		// forms that start futures: their bodies run on other goroutines under contexts derived from the evaluation's;
		// keep those contexts alive until the end of the case and give the bodies time to run inside its START/END window
		var keep []context.CancelFunc
		if strings.Contains(text, "future") {
			defer func() {
				time.Sleep(3 * time.Millisecond)
				for _, k := range keep {
					k()
				}
			}()
		}
		release := func(cancel context.CancelFunc) {
			if strings.Contains(text, "future") {
				keep = append(keep, cancel)
			} else {
				cancel()
			}
		}
		// 1. direct
		ctx, cancel := context.WithTimeout(context.Background(), 5*time.Second)
		o := hx.Eval(ctx, ast, mk())
		release(cancel)
		if o.Panicked {
			c.Violate(fw.Violation{Key: "panic@" + o.Site + ":" + c04Head(class), What: "EVAL let a Go panic escape: " + o.PanicMsg, Detail: o.Stack})
			return
		}
		if o.Err != nil {
			c.Count("outcome.error", 1)
			m := o.Err.Error()
			if i := strings.Index(m, ": "); i >= 0 && strings.Contains(m[:i], "§") {
				m = m[i+2:]
			}
			if len(m) > 50 {
				m = m[:50]
			}
			c.Distinct("error_messages", m)
		} else {
			c.Count("outcome.value", 1)
		}
		// 2. wrapped in try/catch: must give a value or :caught, never a panic or an error
		wrapped := types.List{Val: []types.MalType{types.Symbol{Val: "try"}, ast,
			types.List{Val: []types.MalType{types.Symbol{Val: "catch"}, types.Symbol{Val: "caught-error"}, canon.Marker + "caught"}}}}
		ctx, cancel = context.WithTimeout(context.Background(), 5*time.Second)
		o2 := hx.Eval(ctx, wrapped, mk())
		release(cancel)
		if o2.Panicked {
			c.Violate(fw.Violation{Key: "panic@" + o2.Site + ":try-wrapped:" + c04Head(class), What: "EVAL of (try AST (catch e :caught)) let a Go panic escape: " + o2.PanicMsg, Detail: o2.Stack})
			return
		}
		if o2.Err != nil && hx.Classify(o2.Err) != hx.ETimeout {
			c.Violate(fw.Violation{Key: "not-catchable:" + class, What: "the error is not an ordinary lisp error that try/catch can handle: (try AST (catch e :caught)) returned the error " + o2.Err.Error()})
			return
		}
		c.Count("wrapped_runs", 1)
		// 3. already cancelled context: the timeout error is built from whatever node is current
		cctx, ccancel := context.WithCancel(context.Background())
		ccancel()
		o3 := hx.Eval(cctx, ast, mk())
		if o3.Panicked {
			c.Violate(fw.Violation{Key: "panic@" + o3.Site + ":cancelled-ctx:" + c04Head(class), What: "EVAL under an already cancelled context let a Go panic escape: " + o3.PanicMsg, Detail: o3.Stack})
			return
		}
		c.Count("cancelled_ctx_runs", 1)
		// 3a. nil context (EVAL guards for it; the README's example passes none): still no panic may escape
		if !strings.Contains(text, "future") {
			var o5 hx.Outcome
			func() {
				o5 = hx.Eval(nil, ast, mk()) //nolint:staticcheck // deliberate
			}()
			if o5.Panicked {
				c.Violate(fw.Violation{Key: "panic@" + o5.Site + ":nil-ctx:" + c04Head(class), What: "EVAL with a nil context let a Go panic escape: " + o5.PanicMsg, Detail: o5.Stack})
				return
			}
			c.Count("nil_ctx_runs", 1)
		}
		// 3b. the same form as text through REPL / REPLWithPreamble / ReadEvalWithPreamble (READ + EVAL + PRINT of the result)
		if isText {
			for ri, route := range []func(context.Context, types.EnvType, string, *types.Position) (types.MalType, error){lisp.REPL, lisp.REPLWithPreamble, lisp.ReadEvalWithPreamble} {
				ctx, cancel = context.WithTimeout(context.Background(), 5*time.Second)
				p, site, msg, st := fw.Guard(func() { _, _ = route(ctx, mk(), text, types.NewCursorFile("c04.lisp")) })
				cancel()
				if p {
					c.Violate(fw.Violation{Key: "panic@" + site + ":" + []string{"REPL", "REPLWithPreamble", "ReadEvalWithPreamble"}[ri] + ":" + c04Head(class), What: "the text route let a Go panic escape: " + msg, Detail: st})
					return
				}
			}
			c.Count("repl_route_runs", 1)
		}
		// 4. inside a future (a panic there kills the process: attributed through the START/END log)
		if withFuture {
			fut := types.List{Val: []types.MalType{types.Symbol{Val: "deref"}, types.List{Val: []types.MalType{types.Symbol{Val: "future"}, ast}}}}
			ctx, cancel = context.WithTimeout(context.Background(), 5*time.Second)
			o4 := hx.Eval(ctx, fut, mk())
			release(cancel)
			if o4.Panicked {
				c.Violate(fw.Violation{Key: "panic@" + o4.Site + ":future:" + c04Head(class), What: "EVAL of @(future AST) let a Go panic escape: " + o4.PanicMsg, Detail: o4.Stack})
				return
			}
			c.Count("future_runs", 1)
		}
	})
}

func c04Head(class string) string {
	if i := strings.Index(class, "/"); i >= 0 {
		return class[:i]
	}
	if i := strings.Index(class, ":"); i >= 0 {
		return class[:i]
	}
	return class
}

func c04ValuePool(base types.EnvType) []struct {
	name string
	v    types.MalType
} {
	ev := func(src string) types.MalType {
		o := hx.EvalText(context.Background(), src, base)
		if o.Err != nil || o.Panicked {
			panic(fmt.Sprint(src, o.Err, o.PanicMsg))
		}
		return o.Val
	}
	q := func(v types.MalType) types.MalType {
		return types.List{Val: []types.MalType{types.Symbol{Val: "quote"}, v}}
	}
	return []struct {
		name string
		v    types.MalType
	}{
		{"nil", nil}, {"true", true}, {"0", 0}, {"7", 7}, {"-1", -1}, {"str", "s"}, {"empty-str", ""}, {"kw", canon.Marker + "k"},
		{"sym", q(types.Symbol{Val: "sym"})}, {"list", q(types.List{Val: []types.MalType{1, 2}})}, {"vec", types.Vector{Val: []types.MalType{1, 2}}},
		{"map", types.HashMap{Val: map[string]types.MalType{canon.Marker + "a": 1}}}, {"set", types.Set{Val: map[string]struct{}{canon.Marker + "a": {}}}},
		{"empty-list", q(types.List{})},
		// reference objects are created afresh by every case (a shared atom could be made to contain itself by an
		// earlier case; cyclic values are excluded by the quantifier)
		{"atom", types.List{Val: []types.MalType{types.Symbol{Val: "atom"}, 1}}}, {"future", types.List{Val: []types.MalType{types.Symbol{Val: "future"}, 1}}}, {"closure", ev("(fn (x) x)")}, {"closure0", ev("(fn () 1)")},
		{"macro", ev("(do (defmacro c04m (fn (x) x)) c04m)")}, {"builtin", ev("+")}, {"go-error", errors.New("go-error-value")}, {"lisp-error", lisperror.NewLispError("thrown", nil)},
		// appended (indices above are used by position): functions that went through with-meta / the ^ reader macro
		{"closure-with-meta", ev("(with-meta (fn (x) x) {:doc 1})")}, {"closure-reader-meta", ev("^{:a 1} (fn (x) x)")},
		{"macro-with-meta", ev("(do (defmacro c04mm (with-meta (fn (x) x) {:m 1})) c04mm)")}, {"builtin-with-meta", ev("(with-meta + {:b 1})")},
		// appended in round 8 (statement coverage showed the JSON decoders, reached only with well-formed JSON, were never
		// entered): strings that are JSON arrays / objects / string arrays, lisp source text, empty vector / map / set
		{"json-array", `[1,[2],{"a":1},null,"s",1.5,true,[[]],{}]`}, {"json-object", `{"a":{"b":[1,2,null]},"c":[],"d":"s","e":1e400}`}, {"json-strings", `["a","b","a"]`},
		{"lisp-source", "(do (def c04x 1) [c04x {:a #{}}])"}, {"empty-vec", types.Vector{}}, {"empty-map", types.HashMap{}}, {"empty-set", types.Set{}},
	}
}

// pool0 evaluates src in a fresh standard environment (harness set-up values).
func pool0(src string) types.MalType {
	o := hx.EvalText(context.Background(), src, hx.NewStdEnv())
	if o.Err != nil || o.Panicked {
		panic(fmt.Sprint("harness: ", src, o.Err, o.PanicMsg))
	}
	return o.Val
}

func c04Builtins(base types.EnvType) []string {
	skip := map[string]bool{"readline": true, "spew": true, "run-fn-for": true, "benchmark": true, "benchmark*": true, "pprint": true, "time": true, "trace!": true}
	var out []string
	for _, rs := range base.Symbols(nil, "") {
		n := string(rs)
		if skip[n] || strings.HasPrefix(n, "c04") || strings.HasPrefix(n, "_") || strings.HasPrefix(n, "*") {
			continue
		}
		v, err := base.Get(types.Symbol{Val: n})
		if err != nil {
			continue
		}
		switch v.(type) {
		case types.Func, types.MalFunc:
			out = append(out, n)
		}
	}
	sort.Strings(out)
	return out
}

func runC04(c *fw.Ctx) {
	// printing builtins write to stdout: discard
	if f, err := os.OpenFile(os.DevNull, os.O_WRONLY, 0); err == nil {
		os.Stdout = f
	}
	base := hx.NewStdEnv()
	shapes := c04Shapes()
	goShapes := make([]types.MalType, len(shapes))
	for i, s := range shapes {
		goShapes[i] = canon.ToGo(s)
	}
	idx := 0
	// (a) malformed special forms
	rg := c.RandGlobal("forms4")
	for _, head := range c04Heads {
		for n := 0; n <= 4; n++ {
			total := 1
			for i := 0; i < n; i++ {
				total *= len(shapes)
			}
			count := total
			if n == 4 {
				count = c.Pick(20000, 400000)
			}
			for k := 0; k < count; k++ {
				code := k
				if count != total {
					code = rg.Intn(total)
				}
				if !c.Mine(idx) {
					idx++
					continue
				}
				idx++
				ops := make([]types.MalType, n)
				var txt []string
				x := code
				for i := 0; i < n; i++ {
					ops[i] = goShapes[x%len(shapes)]
					txt = append(txt, canon.Render(shapes[x%len(shapes)]))
					x /= len(shapes)
				}
				ast := types.List{Val: append([]types.MalType{types.Symbol{Val: head}}, ops...)}
				c04Run(c, base, fmt.Sprintf("form-%d", idx-1), ast, "("+head+" "+strings.Join(txt, " ")+")", fmt.Sprintf("%s/%d", head, n), k%7 == 0, k%5 == 0)
				c.Count("kind.special-form", 1)
			}
		}
	}
	// (b) functions and macros built from malformed parameter lists, then called with 0..3 arguments
	s, l, v := canon.Sy, canon.Li, canon.Ve
	params := []*canon.Node{l(), l(s("a")), l(s("&")), l(s("a"), s("&")), l(s("&"), s("b")), l(canon.In(1)), l(canon.St("s")), l(s("a"), canon.In(1)), v(s("a"), v(s("b"))), canon.N(), canon.In(5),
		canon.St("s"), canon.Ma(map[string]*canon.Node{canon.Marker + "a": canon.In(1)}), l(s("a"), s("&"), s("b"), s("c")), l(s("&"), s("&"), s("a")), l(l(s("a"))), l(s("&"), canon.In(1)), l(canon.Ke("k")), l(s("a"), s("a")), canon.Se("a"), l(canon.N())}
	for pi, p := range params {
		for nargs := 0; nargs <= 3; nargs++ {
			for _, macro := range []bool{false, true} {
				if !c.Mine(idx) {
					idx++
					continue
				}
				idx++
				fnF := l(s("fn"), p, s("a"))
				var form *canon.Node
				args := []*canon.Node{}
				for i := 0; i < nargs; i++ {
					args = append(args, canon.In(i))
				}
				if macro {
					form = l(s("do"), l(s("defmacro"), s("mm"), fnF), l(append([]*canon.Node{s("mm")}, args...)...))
				} else {
					form = l(append([]*canon.Node{fnF}, args...)...)
				}
				c04Run(c, base, fmt.Sprintf("params-%d", idx-1), canon.ToGo(form), canon.Render(form), fmt.Sprintf("params-%d/%d/%v", pi, nargs, macro), true, true)
				c.Count("kind.param-list", 1)
			}
		}
	}
	// (c) every builtin x argument tuples over the value kinds
	pool := c04ValuePool(base)
	names := c04Builtins(base)
	if c.Shard == 0 {
		c.Count("builtins_enumerated", len(names))
	}
	r3 := c.RandGlobal("tuples")
	for _, name := range names {
		for n := 0; n <= 3; n++ {
			total := 1
			for i := 0; i < n; i++ {
				total *= len(pool)
			}
			count := total
			if n == 3 {
				count = c.Pick(1500, total)
			}
			for k := 0; k < count; k++ {
				code := k
				if count != total {
					code = r3.Intn(total)
				}
				if !c.Mine(idx) {
					idx++
					continue
				}
				idx++
				ops := make([]types.MalType, n)
				var txt []string
				x := code
				for i := 0; i < n; i++ {
					ops[i] = pool[x%len(pool)].v
					txt = append(txt, pool[x%len(pool)].name)
					x /= len(pool)
				}
				ast := types.List{Val: append([]types.MalType{types.Symbol{Val: name}}, ops...)}
				c04Run(c, base, fmt.Sprintf("builtin-%d", idx-1), ast, "("+name+" "+strings.Join(txt, " ")+")", fmt.Sprintf("%s/%d", name, n), k%5 == 0)
				c.Count("kind.builtin-call", 1)
			}
		}
	}
	// (d) ASTs that READ cannot produce, built from the value types
	closure := pool[16].v
	atom := pool0("(atom 1)")
	odd := []struct {
		name string
		v    types.MalType
	}{
		{"List{Val:nil}", types.List{}}, {"Vector{Val:nil}", types.Vector{}}, {"HashMap{Val:nil}", types.HashMap{}}, {"Set{Val:nil}", types.Set{}}, {"Symbol{\"\"}", types.Symbol{Val: ""}},
		{"head=map", types.List{Val: []types.MalType{types.HashMap{Val: map[string]types.MalType{"a": 1}}, 1}}}, {"head=set", types.List{Val: []types.MalType{types.Set{Val: map[string]struct{}{"a": {}}}, 1}}},
		{"head=vector", types.List{Val: []types.MalType{types.Vector{Val: []types.MalType{1}}, 1}}}, {"head=keyword", types.List{Val: []types.MalType{canon.Marker + "k", types.HashMap{Val: map[string]types.MalType{canon.Marker + "k": 1}}}}},
		{"head=nil", types.List{Val: []types.MalType{nil, 1}}}, {"head=closure", types.List{Val: []types.MalType{closure, 1}}}, {"head=closure,2args", types.List{Val: []types.MalType{closure, 1, 2}}},
		{"head=builtin", types.List{Val: []types.MalType{pool[19].v, 1, "s"}}}, {"head=atom", types.List{Val: []types.MalType{atom}}}, {"atom-in-vector", types.Vector{Val: []types.MalType{atom, closure}}},
		{"map-with-closure", types.HashMap{Val: map[string]types.MalType{"f": closure, "a": atom}}}, {"float", float32(1.5)}, {"float64", 2.5}, {"int64", int64(3)}, {"bytes", []byte("ab")},
		{"error-value", errors.New("x")}, {"lisp-error-value", lisperror.NewLispError("v", nil)}, {"head=error", types.List{Val: []types.MalType{errors.New("x"), 1}}},
		{"def-nonsymbol-closure", types.List{Val: []types.MalType{types.Symbol{Val: "def"}, closure, 1}}}, {"let-closure-binding", types.List{Val: []types.MalType{types.Symbol{Val: "let"}, types.List{Val: []types.MalType{closure, 1}}, 1}}},
		{"fn-params-atom", types.List{Val: []types.MalType{types.List{Val: []types.MalType{types.Symbol{Val: "fn"}, atom, 1}}, 1}}}, {"symbol-empty-call", types.List{Val: []types.MalType{types.Symbol{Val: ""}}}},
		{"nested-nil-lists", types.List{Val: []types.MalType{types.List{}, types.List{}}}}, {"try-with-nil-list", types.List{Val: []types.MalType{types.Symbol{Val: "try"}, types.List{}}}},
		{"quasiquote-nil-list", types.List{Val: []types.MalType{types.Symbol{Val: "quasiquote"}, types.List{}}}}, {"quasiquote-vector-nil", types.List{Val: []types.MalType{types.Symbol{Val: "quasiquote"}, types.Vector{}}}},
	}
	for oi, od := range odd {
		if c.Mine(idx) {
			c04Run(c, base, fmt.Sprintf("odd-%d", oi), od.v, od.name, "go-built:"+od.name, true)
			c.Count("kind.go-built", 1)
			// also as operand of every special-form head and as argument of a few builtins
			for _, head := range append(append([]string{}, c04Heads...), "list", "str", "pr-str", "=", "count", "conj", "apply", "map", "swap!", "with-meta", "meta", "type?", "json-encode", "hash-map", "throw", "assert") {
				ast := types.List{Val: []types.MalType{types.Symbol{Val: head}, od.v, od.v}}
				c04Run(c, base, fmt.Sprintf("odd-%d-%s", oi, head), ast, "("+head+" "+od.name+" "+od.name+")", "go-built-operand:"+head, false)
				c.Count("kind.go-built", 1)
			}
		}
		idx++
	}
	// (f) futures cancelled or abandoned while their body is inside a Go builtin that ignores cancellation and then
	// returns / fails / panics: whatever the body's goroutine does afterwards must not panic into the host
	// bound through lib/call like every builtin (the binder's recover is part of the path under test)
	call.CallOverrideFN(base, "c04-slow!", func(a ...types.MalType) (types.MalType, error) {
		time.Sleep(4 * time.Millisecond)
		if len(a) > 0 {
			if s, ok := a[0].(string); ok && s == "err" {
				return nil, errors.New("slow failed")
			}
			if s, ok := a[0].(string); ok && s == "panic" {
				panic("slow panicked")
			}
		}
		return 42, nil
	})
	futProgs := []string{
		"(let (f (future (c04-slow!))) (future-cancel f) (try @f (catch e e)))",
		"(let (f (future (c04-slow! \"err\"))) (future-cancel f) (try @f (catch e e)))",
		"(let (f (future (c04-slow! \"panic\"))) (future-cancel f) (try @f (catch e e)))",
		"(let (f (future (do (c04-slow!) (c04-slow!)))) (future-cancel f) (future-cancel f) (future-done? f))",
		"(let (f (future (c04-slow!))) (list @f (future-cancel f) @f (future-cancelled? f)))",
		"(let (f (future (throw {:a 1}))) (try @f (catch e (list e (future-cancel f) (try @f (catch e2 e2))))))",
		"(let (f (future (c04-slow!))) (future-cancel f) (future-done? f))",
		"(do (future (c04-slow! \"panic\")) (future (c04-slow! \"err\")) nil)",
		// the same with the body given time to get inside the slow builtin before it is cancelled (on a loaded machine a
		// cancel issued at once can land before the body's thread has started, and then nothing of the body runs)
		"(let (f (future (c04-slow!))) (sleep 1) (future-cancel f) (try @f (catch e e)))",
		"(let (f (future (c04-slow! \"err\"))) (sleep 1) (future-cancel f) (try @f (catch e e)))",
		"(let (f (future (c04-slow! \"panic\"))) (sleep 1) (future-cancel f) (try @f (catch e e)))",
		"(let (f (future (do (c04-slow!) (c04-slow!)))) (sleep 1) (future-cancel f) (future-cancel f) (future-done? f))",
		"(let (f (future (c04-slow!))) (sleep 1) (future-cancel f) (future-done? f))",
	}
	for fi, src := range futProgs {
		for rep := 0; rep < c.Pick(4, 40); rep++ {
			if !c.Mine(idx) {
				idx++
				continue
			}
			idx++
			ast, err := lisp.READ(src, nil, base)
			if err != nil {
				panic(err)
			}
			c04Run(c, base, fmt.Sprintf("futcancel-%d-%d", fi, rep), ast, src, "future-cancel", false)
			// give the body goroutines time to finish inside this case's START/END window
			c.Case(fmt.Sprintf("futcancel-%d-%d-settle", fi, rep), src+" ; (bodies finishing)", func() { time.Sleep(20 * time.Millisecond) })
			c.Count("kind.future-cancel", 1)
		}
	}
	// (g) function values of every provenance x every way of applying them (well-formed and ill-formed): the evaluator's
	// own call path, types.Apply (apply, map, swap!, reduce, sort-by…), macro expansion and futures are different code
	fnSrc := []string{"(fn (x) x)", "(fn (x) (do x))", "(fn (x) 42)", "(fn (x) ())", "(fn (x) [x])", "(fn (x & r) x)", "(fn (& r) r)", "(fn () 7)",
		"(with-meta (fn (x) x) {:doc 1})", "^{:a 1} (fn (x) x)", "(with-meta (with-meta (fn (x) (list x)) {:a 1}) nil)", "(with-meta (fn () 7) {})", "(with-meta (fn (& r) r) {:v 1})",
		"(eval (quote (fn (x) x)))", "(eval (list (quote fn) (list (quote x)) (quote x)))", "((fn (k) (fn (x) (+ x k))) 1)", "(first (list (fn (x) x)))", "(get {:f (fn (x) x)} :f)",
		"(deref (atom (fn (x) x)))", "(quasiquote (unquote (fn (x) x)))", "(let (f (fn (x) x)) (with-meta f {:again (meta f)}))", "+", "(with-meta + {:m 1})", "identity", "(with-meta identity {:m 1})", "inc"}
	uses := []string{"(F 1)", "(F)", "(F 1 2)", "(F 1 2 3)", "(apply F [1])", "(apply F [])", "(apply F 1 2 [3])", "(map F [1 2])", "(map F [])", "(swap! (atom 1) F)", "(swap! (atom 1) F 2)",
		"(reduce F 0 [1 2])", "(reduce F [1])", "(filter F [1 nil])", "(sort-by F [2 1])", "(do (defmacro MM F) (MM 1))", "(do (defmacro MM F) (MM))", "(do (defmacro MM F) (MM 1 2))",
		"(do (defmacro MM F) (macroexpand (MM 1)))", "(do (defmacro MM F) (macroexpand (MM)))", "(do (defmacro MM F) (let (MM 5) MM))", "(do (defmacro MM F) (map MM [1]))",
		"(future-call F)", "@(future-call F)", "@(future (F 1))", "@(future (F))", "(let (g F) (g 1))", "((fn (h) (h 1)) F)", "((fn (h) (h)) F)", "(meta F)", "(= F F)", "(str F)", "(pr-str [F])",
		"(try (F) (catch e (F 1)))", "(try (throw F) (catch e (e 1)))", "(memoize F)", "((memoize F) 1)", "((memoize F))", "((partial F 1))", "((partial F))", "((comp F F) 1)", "(-> 1 F)", "(->> 1 (F))",
		"(update {:a 1} :a F)", "(update-in {:a {:b 1}} [:a :b] F)", "(group-by F [1 2])", "(some F [1])", "(every? F [1])", "(run-fn-for F 1)", "(with-meta F F)", "(F F)"}
	for fi, fsrc := range fnSrc {
		for ui, use := range uses {
			if !c.Mine(idx) {
				idx++
				continue
			}
			idx++
			text := strings.ReplaceAll(strings.ReplaceAll(use, "MM", fmt.Sprintf("c04gm%d", fi)), "F", fsrc)
			ast, rerr := lisp.READ(text, nil, base)
			if rerr != nil {
				continue
			}
			c04Run(c, base, fmt.Sprintf("fnuse-%d-%d", fi, ui), ast, text, fmt.Sprintf("fn-use:%d/%d", fi, ui), strings.Contains(use, "future") || (fi+ui)%3 == 0, true)
			c.Count("kind.function-use", 1)
		}
	}
	// (h) handlers that fail: the body fails with X (thrown, asserted, or a builtin's Go error), the handler ends in a
	// failure of its own (the same value again, a value of the same kind, another kind, a builtin error, an unbound
	// symbol), alone, with finally, inside an outer try, inside a function and a future (seeded C04-m15: the evaluator
	// comparing the two errors with ==, which panics for maps, vectors, lists, sets and functions)
	thrown := []string{"1", "\"s\"", ":k", "nil", "{:code 1}", "[1 2]", "(list 1 2)", "#{:a}", "(fn (x) x)", "+", "(atom 1)", "{}", "[]", "()"}
	bodies := []string{"(throw X)", "(assert false X)", "(nth [] 1)", "(undefined-symbol-c04)", "(do (throw X) 1)", "((fn () (throw X)))"}
	tails := []string{"(throw e)", "(throw Y)", "(throw (list e Y))", "(nth [] 1)", "(undefined-symbol-c04)", "(e)", "(do (throw e))", "((fn () (throw e)))", "(if true (throw e) 1)", "(let (z e) (throw z))"}
	wraps := []string{"T", "(try T (catch e2 e2))", "(try T (catch e2 (throw e2)))", "((fn () T))", "(do T 1)", "@(future T)", "(try T (finally 1))", "(let (r (try T (catch e3 e3))) r)"}
	hi := 0
	for xi, x := range thrown {
		for bi, b := range bodies {
			for ti, t := range tails {
				for wi, wr := range wraps {
					hi++
					// the full product is 14*6*10*8 = 6720; quick runs a third of it (every combination of body/tail/wrap
					// still occurs with several thrown kinds)
					if c.Quick() && (hi+xi)%3 != 0 {
						continue
					}
					if !c.Mine(idx) {
						idx++
						continue
					}
					idx++
					y := thrown[(xi+ti+1)%len(thrown)]
					if ti%2 == 0 {
						y = x // same kind (and the same text) as the body's value
					}
					for fin := 0; fin < 2; fin++ {
						inner := "(try " + strings.ReplaceAll(b, "X", x) + " (catch e " + strings.ReplaceAll(t, "Y", y) + ")"
						if fin == 1 {
							inner += " (finally 2)"
						}
						inner += ")"
						text := strings.ReplaceAll(wr, "T", inner)
						ast, rerr := lisp.READ(text, nil, base)
						if rerr != nil {
							panic(fmt.Sprint(text, rerr))
						}
						c04Run(c, base, fmt.Sprintf("failing-handler-%d-%d-%d-%d-%d", xi, bi, ti, wi, fin), ast, text, fmt.Sprintf("failing-handler:%d/%d", bi, ti), wi == 5, true)
						c.Count("kind.failing-handler", 1)
					}
				}
			}
		}
	}
	// (e) seeded random compositions of the above (nesting malformed forms inside each other)
	r := c.Rand("compose")
	for i := 0; i < c.PerShard(c.Pick(200000, 6000000)); i++ {
		depth := 1 + r.Intn(3)
		var build func(d int) types.MalType
		var sb strings.Builder
		build = func(d int) types.MalType {
			if d == 0 || r.Intn(3) == 0 {
				k := r.Intn(len(shapes) + len(pool))
				if k < len(shapes) {
					return goShapes[k]
				}
				return pool[k-len(shapes)].v
			}
			var head string
			if r.Intn(2) == 0 {
				head = c04Heads[r.Intn(len(c04Heads))]
			} else {
				head = names[r.Intn(len(names))]
			}
			n := r.Intn(4)
			l := []types.MalType{types.Symbol{Val: head}}
			for j := 0; j < n; j++ {
				l = append(l, build(d-1))
			}
			return types.List{Val: l}
		}
		ast := build(depth)
		sb.WriteString(lispPrintSafe(ast))
		c04Run(c, base, fmt.Sprintf("comp-%d", i), ast, sb.String(), "composed", i%4 == 0)
		c.Count("kind.composed", 1)
	}
	_ = gen.Pick[int]
}

func lispPrintSafe(ast types.MalType) (s string) {
	defer func() {
		if r := recover(); r != nil {
			s = fmt.Sprintf("<unprintable AST: %v>", r)
		}
	}()
	return lisp.PRINT(ast)
}

func init() {
	fw.Register(&fw.Property{
		ID:     "C04",
		Run:    runC04,
		Rule:   "(a) every special-form head (15) x operand count 0..4 x 29 operand shapes (exhaustive to 2 operands in quick / 3 in thorough, sampled beyond); (b) functions and macros built from 21 malformed parameter lists and called with 0..3 arguments; (c) every function found in the loaded environment (minus interactive/printing helpers) x argument tuples of length 0..3 over 22 value kinds incl. atoms, futures, closures, macros, builtins, Go errors (sampled in quick, all in thorough); (d) ASTs READ cannot produce (nil slices/maps, empty symbol, non-symbol heads, closures/atoms/errors/floats spliced into head and operand positions) alone and as operands of every head; (e) seeded compositions nesting all of these; every AST is evaluated directly, as (try AST (catch e :caught)), under an already cancelled context and (a subset) as @(future AST); a Go panic reaching the harness's recover() or killing the worker process is a violation, so is an error that try/catch cannot handle; distinct = distinct (head/builtin, arity) classes; (g) function values of 26 provenances (plain, with-meta, ^meta, eval-built, from atoms/maps/lists, builtins with metadata) x 51 ways of applying them (direct with 0..3 arguments, apply, map, swap!, reduce, filter, sort-by, defmacro + call / macroexpand / map, future-call, memoize, partial, comp, ->, ->>, update, update-in, group-by, some, every?, with-meta, self-application); (h) failing handlers: 14 thrown values (scalars, collections, functions, atoms) x 6 failing bodies x 10 handler tails that fail themselves (the same value, one of the same kind, another kind, builtin error, unbound symbol) x 8 contexts (bare, outer try, rethrowing outer try, function, do, future, finally, let) x with/without finally",
		Assume: []string{"recursion depth is bounded by construction (host-stack exhaustion is excluded by the quantifier)", "hand-forged zero-valued MalFunc/Func structs and foreign EnvType implementations are not generated"},
		Finish: func(m *fw.Merged) {
			m.Floor("asts", 10000)
			m.Floor("kind.special-form", 5000)
			m.Floor("kind.builtin-call", 5000)
			m.Floor("kind.param-list", 100)
			m.Floor("kind.go-built", 100)
			m.Floor("cancelled_ctx_runs", 5000)
			m.Floor("future_runs", 1000)
			m.Extra["outcome_histogram"] = m.CountsWithPrefix("outcome.")
			m.Extra["kinds"] = m.CountsWithPrefix("kind.")
			m.Extra["distinct_error_messages"] = m.DistinctN("error_messages")
		},
	})
}
