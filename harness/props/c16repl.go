package props

import (
	"context"
	"fmt"
	"io"
	"math/rand"
	"os"
	"sort"
	"strings"
	"time"

	"github.com/chzyer/readline"
	"github.com/jig/lisp"
	"github.com/jig/lisp/repl"

	"verifharness/canon"
	"verifharness/fw"
	"verifharness/gen"
	"verifharness/hx"
)

// REPL sessions for C16: the property's reason for distinguishing "incomplete" from "malformed" is the interactive
// REPL, which keeps reading lines while READ reports the distinguished error. Here the real loop (repl.Execute) is
// driven with typed lines: every entry is a self-evaluating data value written over several lines (line breaks only
// between tokens), with ';' comments — some containing brackets — at the end of lines and on lines of their own.
// The REPL must print exactly one result per entry, equal to the entry's value: it must neither keep asking for lines
// after the last closer nor evaluate before it.

// c16SessionValue: data that evaluates to itself (no symbols, no lists).
func c16SessionValue(r *rand.Rand, d int) *canon.Node {
	if d <= 0 || r.Intn(3) == 0 {
		switch r.Intn(6) {
		case 0:
			return canon.In(r.Intn(1000) - 500)
		case 1:
			return canon.St(gen.Pick(r, []string{"a", "", "semi;colon", "paren ) ] }", "quote \\\" q", "two  spaces", "#{", "( [ {"}))
		case 2:
			return canon.Ke(gen.Pick(r, []string{"a", "b", "key"}))
		case 3:
			return canon.Bo(r.Intn(2) == 0)
		case 4:
			return canon.N()
		default:
			return canon.In(r.Intn(10))
		}
	}
	w := r.Intn(4)
	switch r.Intn(3) {
	case 0:
		l := make([]*canon.Node, w)
		for i := range l {
			l[i] = c16SessionValue(r, d-1)
		}
		return canon.Ve(l...)
	case 1:
		m := map[string]*canon.Node{}
		for i := 0; i < w; i++ {
			m[canon.Marker+gen.Pick(r, []string{"a", "b", "c", "d"})] = c16SessionValue(r, d-1)
		}
		return canon.Ma(m)
	default:
		var mem []string
		for i := 0; i < w; i++ {
			mem = append(mem, gen.Pick(r, []string{"x", "y", canon.Marker + "k"}))
		}
		return canon.Se(mem...)
	}
}

func sortedKeys[V any](m map[string]V) []string {
	ks := make([]string, 0, len(m))
	for k := range m {
		ks = append(ks, k)
	}
	sort.Strings(ks)
	return ks
}

// c16SessionTokens flattens a value into reader tokens.
func c16SessionTokens(n *canon.Node, out *[]string) {
	switch n.K {
	case canon.Vec:
		*out = append(*out, "[")
		for _, e := range n.L {
			c16SessionTokens(e, out)
		}
		*out = append(*out, "]")
	case canon.Map:
		*out = append(*out, "{")
		for _, k := range sortedKeys(n.M) {
			c16SessionTokens(canon.KeyNode(k), out)
			c16SessionTokens(n.M[k], out)
		}
		*out = append(*out, "}")
	case canon.Set:
		*out = append(*out, "#{")
		for _, k := range sortedKeys(n.Mem) {
			c16SessionTokens(canon.KeyNode(k), out)
		}
		*out = append(*out, "}")
	default:
		*out = append(*out, canon.Render(n))
	}
}

// c16SessionEntry lays the tokens out over lines.
func c16SessionEntry(r *rand.Rand, toks []string) (text string, lines int, commented bool) {
	var sb strings.Builder
	if r.Intn(6) == 0 {
		sb.WriteString(";; a comment line before the entry ( [\n")
		lines++
	}
	for i, t := range toks {
		sb.WriteString(t)
		if i == len(toks)-1 {
			break
		}
		switch r.Intn(6) {
		case 0:
			sb.WriteString("\n")
			lines++
		case 1:
			sb.WriteString(gen.Pick(r, []string{" ; note\n", " ; closes ) ] }\n", " ;; \"quote\n", " ;\n"}))
			lines++
			commented = true
		case 2:
			sb.WriteString("\n   ; a comment line of its own ]\n  ")
			lines += 2
			commented = true
		default:
			sb.WriteString(" ")
		}
	}
	if r.Intn(5) == 0 {
		sb.WriteString(" ; done )")
	}
	sb.WriteString("\n")
	lines++
	return sb.String(), lines, commented
}

type c16Discard struct{}

func (c16Discard) Write(p []byte) (int, error) { return len(p), nil }
func (c16Discard) Close() error                { return nil }

func c16Session(c *fw.Ctx, r *rand.Rand, id string) {
	n := 2 + r.Intn(5)
	var vals []*canon.Node
	var input strings.Builder
	multi, commented := 0, 0
	for i := 0; i < n; i++ {
		v := c16SessionValue(r, 3)
		var toks []string
		if r.Intn(5) == 0 {
			// a quoted list: prints without the quote
			inner := canon.Li(v, canon.In(i))
			toks = append(toks, "(", "quote", "(")
			c16SessionTokens(v, &toks)
			toks = append(toks, fmt.Sprint(i), ")", ")")
			v = inner
		} else {
			c16SessionTokens(v, &toks)
		}
		text, lines, com := c16SessionEntry(r, toks)
		if lines > 1 {
			multi++
		}
		if com {
			commented++
		}
		vals = append(vals, v)
		input.WriteString(text)
	}
	c.Case(id, input.String(), func() {
		env := hx.NewStdEnv()
		home := fmt.Sprintf("%s/c16-home-%d", c.WorkDir, c.Shard)
		os.MkdirAll(home, 0o755)
		os.Setenv("HOME", home)
		oldStdin, oldStdout, oldRlOut, oldRlErr := readline.Stdin, os.Stdout, readline.Stdout, readline.Stderr
		pr, pw, err := os.Pipe()
		if err != nil {
			panic(err)
		}
		readline.Stdin = io.NopCloser(strings.NewReader(input.String()))
		// results are observed wherever the REPL writes them: the process's standard output or readline's own writer;
		// prompts and echoes (readline's stderr side) are discarded
		os.Stdout = pw
		readline.Stdout = pw
		readline.Stderr = c16Discard{}
		printed := make(chan string, 1)
		go func() { b, _ := io.ReadAll(pr); printed <- string(b) }()
		done := make(chan error, 1)
		go func() { done <- repl.Execute(context.Background(), env) }()
		var execErr error
		returned := true
		select {
		case execErr = <-done:
		case <-time.After(60 * time.Second):
			returned = false
		}
		pw.Close()
		readline.Stdin, os.Stdout, readline.Stdout, readline.Stderr = oldStdin, oldStdout, oldRlOut, oldRlErr
		out := <-printed
		pr.Close()
		c.Count("repl_sessions", 1)
		c.Count("repl_entries", n)
		c.Count("repl_entries_over_several_lines", multi)
		c.Count("repl_entries_with_comments_on_inner_lines", commented)
		if !returned {
			c.Violate(fw.Violation{Key: "repl:did-not-return-at-end-of-input", What: "repl.Execute did not return within 60 s after its input ended", Detail: fw.GoroutineDump()})
			c.Runaway()
			return
		}
		if execErr != nil {
			c.Violate(fw.Violation{Key: "repl:error", What: "repl.Execute: " + execErr.Error()})
			return
		}
		got := strings.Split(strings.TrimSuffix(out, "\n"), "\n")
		if out == "" {
			got = nil
		}
		if len(got) != n {
			c.Violate(fw.Violation{Key: "repl:entries-vs-results", What: fmt.Sprintf("%d complete entries were typed, the REPL printed %d result line(s): %q", n, len(got), out)})
			return
		}
		for i, line := range got {
			ast, rerr := lisp.READ(line, nil, env)
			if rerr != nil || !canon.Equal(canon.FromGo(ast), vals[i]) {
				c.Violate(fw.Violation{Key: "repl:wrong-result", What: fmt.Sprintf("entry %d should print %s, the REPL printed %q (read error: %v)", i, canon.Render(vals[i]), line, rerr)})
				return
			}
		}
		c.Count("repl_results_matching", n)
	})
}
