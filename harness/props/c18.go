package props

import (
	"fmt"
	"math/rand"
	"os"
	"regexp"
	"strings"

	"github.com/jig/lisp"
	"github.com/jig/lisp/debuggertypes"
	"github.com/jig/lisp/types"

	"verifharness/canon"
	"verifharness/fw"
	"verifharness/gen"
	"verifharness/hx"
	"verifharness/refmal"
)

// C18: installing a debugger stepper does not change what programs compute.

type c18Script struct {
	name string
	next func(i int, r *rand.Rand) debuggertypes.Command
}

func c18Scripts() []c18Script {
	cst := func(c debuggertypes.Command) func(int, *rand.Rand) debuggertypes.Command {
		return func(int, *rand.Rand) debuggertypes.Command { return c }
	}
	alt := func(a, b debuggertypes.Command) func(int, *rand.Rand) debuggertypes.Command {
		return func(i int, _ *rand.Rand) debuggertypes.Command {
			if i%2 == 0 {
				return a
			}
			return b
		}
	}
	N, X, I, O := debuggertypes.NoOp, debuggertypes.Next, debuggertypes.In, debuggertypes.Out
	all := []debuggertypes.Command{N, X, I, O}
	rnd := func(i int, r *rand.Rand) debuggertypes.Command { return all[r.Intn(4)] }
	return []c18Script{
		{"noop", cst(N)}, {"next", cst(X)}, {"in", cst(I)}, {"out", cst(O)},
		{"in/next", alt(I, X)}, {"in/out", alt(I, O)}, {"next/out", alt(X, O)}, {"noop/out", alt(N, O)}, {"out/in", alt(O, I)}, {"next/in", alt(X, I)},
		{"random-a", rnd}, {"random-b", rnd}, {"random-c", rnd}, {"random-d", rnd},
		{"every-third-out", func(i int, _ *rand.Rand) debuggertypes.Command {
			if i%3 == 2 {
				return O
			}
			return I
		}},
		{"next-after-5", func(i int, _ *rand.Rand) debuggertypes.Command {
			if i >= 5 {
				return X
			}
			return I
		}},
	}
}

var c18AllowedUnbound = regexp.MustCompile(`^(zz.*|unbound-.*|undefined-.*|nope|e\d*|_|inner.*)$`)

func runC18(c *fw.Ctx) {
	if f, err := os.OpenFile(os.DevNull, os.O_WRONLY, 0); err == nil {
		os.Stdout = f
	}
	b := newDiffBase()
	scripts := c18Scripts()
	if !c.Quick() {
		// more random scripts
		for i := 0; i < 24; i++ {
			scripts = append(scripts, c18Script{fmt.Sprintf("random-%d", i), scripts[10].next})
		}
	}
	r := c.Rand("progs")
	sr := c.Rand("scripts")
	gens := []*gen.PG{
		gen.NewPG(r, gen.ProgOpts{MaxDepth: 5, Faults: 5}),
		gen.NewPG(r, gen.ProgOpts{MaxDepth: 5, Try: true, GoErrors: true, Faults: 3}),
		gen.NewPG(r, gen.ProgOpts{MaxDepth: 5, Macros: true, Try: true}),
	}
	illFormed := []string{"(let n 1)", "(let (a) a)", "(let (1 2) 3)", "(def 1 2)", "(fn)", "((fn (1) 1) 2)", "((fn (a &) a) 1)", "(defmacro m 1)", "(try 1 (catch))", "(quasiquote (unquote))",
		"(if)", "(1 2 3)", "(nth [] 5)", "(+ 1 \"s\")", "(apply 1 [2])", "(map 1 [2])", "(undefined-fn 1)", "(throw (quote (a b)))", "(cond 1)", "(swap! (atom 1) 5)"}
	for i := 0; i < c.PerShard(c.Pick(16000, 300000)); i++ {
		pg := gens[i%len(gens)]
		forms := pg.Program()
		if i%8 == 7 {
			// an ill-formed or failing form caught by a handler that traces the caught object and a finally
			bad, _ := lisp.READ(illFormed[(i/8)%len(illFormed)], nil, nil)
			forms = append([]*canon.Node{canon.Li(canon.Sy("try"), canon.Li(canon.Sy("trace!"), canon.Ke("before")), canon.FromGo(bad),
				canon.Li(canon.Sy("catch"), canon.Sy("e"), canon.Li(canon.Sy("trace!"), canon.Li(canon.Sy("list"), canon.Ke("caught"), canon.Sy("e")))),
				canon.Li(canon.Sy("finally"), canon.Li(canon.Sy("trace!"), canon.Ke("finally"))))}, forms...)
			c.Count("ill_formed_probes", 1)
		}
		text := progText(forms)
		c.Case(fmt.Sprintf("prog-%d", i), text, func() {
			mref := runRef(forms, 100000)
			if i%8 == 7 {
				mref = runRef(forms[1:], 100000) // the ill-formed probe itself is outside the reference interpreter's language
			}
			if mref.Err != nil && (mref.Err.Class == refmal.Budget || mref.Err.Class == refmal.Malformed) {
				c.Count("discarded."+string(mref.Err.Class), 1)
				return
			}
			// symbols that are genuinely unbound where they are evaluated (per the reference interpreter, also inside try)
			// are legitimately handed to the callback with a scope in which they do not resolve
			genuinelyUnbound := mref.It.UnboundSeen
			c18Compare(c, b, scripts, sr, text, canon.Shape(canon.Li(forms...)), genuinelyUnbound)
			if i == 0 {
				c.Sample(text)
			}
		})
	}
	// long-running programs: thousands of tail calls, deep (non-tail) recursion and long macro-expansion chains run
	// the same with and without a stepper (programs that fit the host stack comfortably)
	long := []string{
		"(do (def sum-to (fn (n acc) (if (< n 1) acc (sum-to (- n 1) (+ acc n))))) (trace! (sum-to %d 0)) (trace! :after))",
		"(do (def ping (fn (n) (if (< n 1) :done (pong (- n 1))))) (def pong (fn (n) (cond (< n 1) :done-pong :else (ping (- n 1))))) (trace! (ping %d)))",
		"(do (def down (fn (n) (if (< n 1) 0 (+ 1 (down (- n 1)))))) (trace! (down (/ %d 10))))",
		"(do (def lp (fn (n) (let (m (- n 1)) (if (< m 1) (trace! :end) (do (if (= 0 (- m (* 1000 (/ m 1000)))) (trace! m)) (lp m)))))) (lp %d))",
		"(do (def a (atom 0)) (def bump (fn (n) (if (< n 1) @a (do (swap! a inc) (bump (- n 1)))))) (trace! (bump %d)))",
		"(do (def guarded (fn (n) (try (if (< n 1) (throw :bottom) (guarded (- n 1))) (catch e (do (if (< n 3) (trace! (list :unwinding n))) (throw e)))))) (try (guarded (/ %d 1000)) (catch e (trace! e))))", // try nests stay shallow: every level takes a fifth of the remaining deadline, so deep nests time out by design
	}
	// builtins that fail (after their effect, before it, in handlers, uncaught): a failing call is handed once per evaluation
	failing := []string{
		"(do (try (trace-then-fail! :a) (catch e (trace! :ha))) (def f (fn (k) (try (trace-then-fail! k) (catch e (do (trace! :hf) k)) (finally (trace! :fin))))) (trace! (f :b)) (trace! (f :c)))",
		"(do (try (nth [1 2] (do (trace! :idx) 5)) (catch e (trace! :hn))) (try (throw (trace! :thrown)) (catch e (trace! (list :caught e)))) (trace! :end))",
		"(do (defmacro failing-m (fn (x) (list (quote do) (list (quote trace-then-fail!) x)))) (try (failing-m :m1) (catch e (trace! :hm))) (trace! :before-uncaught) (trace-then-fail! :uncaught) (trace! :never))",
		"(do (def g (fn (n) (if (< n 1) (trace-then-fail! :bottom) (do (trace! n) (g (- n 1)))))) (try (g 5) (catch e (trace! :hg))) (map (fn (k) (try (trace-then-fail! k) (catch e k))) [:m-a :m-b]))",
	}
	for fi, text := range failing {
		if !c.Mine(fi) {
			continue
		}
		text := text
		c.Case(fmt.Sprintf("failing-builtins-%d", fi), text, func() {
			c.Count("failing_builtin_programs", 1)
			c18Compare(c, b, scripts, sr, text, fmt.Sprintf("failing-%d", fi), map[string]bool{})
		})
	}
	for li, tmpl := range long {
		for _, n := range []int{4000, 6000, 12000} {
			if !c.Mine(li*3 + n/5000) {
				continue
			}
			text := fmt.Sprintf(tmpl, n)
			c.Case(fmt.Sprintf("long-%d-%d", li, n), text, func() {
				c.Count("long_running_programs", 1)
				c18Compare(c, b, scripts[:8], sr, text, fmt.Sprintf("long-%d", li), map[string]bool{})
			})
		}
	}
}

// c18Compare runs text without a stepper and under every script and reports any difference.
func c18Compare(c *fw.Ctx, b *diffBase, scripts []c18Script, sr *rand.Rand, text, shape string, genuinelyUnbound map[string]bool) {
	ast, err := lisp.READ(text, types.NewCursorFile("prog.lisp"), nil)
	if err != nil {
		return
	}
	lisp.Stepper = nil
	ref := b.runReal(ast)
	if ref.Panicked {
		c.Count("baseline_panicked", 1) // C04's business
		return
	}
	c.Count("programs", 1)
	if len(ref.Trace) > 0 {
		c.Distinct("shapes", shape)
	}
	for _, sc := range scripts {
		calls := 0
		var nilScope, unresolved string
		seed := sr.Int63()
		cr := rand.New(rand.NewSource(seed))
		handedTrace := map[string]int{}
		lisp.Stepper = func(a types.MalType, ns types.EnvType) debuggertypes.Command {
			calls++
			// a handed (trace! :k) is about to be evaluated: its effect must follow (checked after the run)
			if l, ok := a.(types.List); ok && len(l.Val) == 2 {
				if h, ok := l.Val[0].(types.Symbol); ok && (h.Val == "trace!" || h.Val == "trace-then-fail!") {
					if k, ok := l.Val[1].(string); ok && strings.HasPrefix(k, canon.Marker) {
						handedTrace[k]++
					}
				}
			}
			if ns == nil && nilScope == "" {
				nilScope = lisp.PRINT(a)
			}
			if s, ok := a.(types.Symbol); ok && ns != nil && unresolved == "" {
				if _, e := ns.Get(s); e != nil && !c18AllowedUnbound.MatchString(s.Val) && !genuinelyUnbound[s.Val] {
					unresolved = s.Val
				}
			}
			cmd := sc.next(calls-1, cr)
			c.Count2("cmd." + []string{"noop", "next", "out", "in"}[cmd])
			return cmd
		}
		rr := b.runReal(ast)
		lisp.Stepper = nil
		c.Count("stepped_runs", 1)
		c.Count("callback_invocations", calls)
		c.Count("script."+sc.name, 1)
		in := fmt.Sprintf("script %s (seed %d)\n%s", sc.name, seed, text)
		if rr.Panicked {
			c.Violate(fw.Violation{Key: "panic-under-stepper@" + rr.Site, What: "EVAL panicked with a stepper installed: " + rr.PanicMsg, Input: in, Detail: rr.Stack})
			return
		}
		if nilScope != "" {
			c.Violate(fw.Violation{Key: "nil-scope", What: "the stepper callback was handed a nil scope with form " + nilScope, Input: in})
			return
		}
		if unresolved != "" {
			c.Violate(fw.Violation{Key: "unresolvable-symbol", What: "the callback was handed symbol " + unresolved + " together with a scope in which it does not resolve", Input: in})
			return
		}
		if rr.Err == nil || rr.Class != hx.ETimeout {
			seen := map[string]int{}
			for _, ev := range rr.Trace {
				if ev.K == canon.Kw {
					seen[canon.Marker+ev.S]++
				}
			}
			for k, n := range handedTrace {
				if seen[k] < n {
					c.Violate(fw.Violation{Key: "handed-form-never-evaluated", What: fmt.Sprintf("the callback was handed (trace! %s) %d time(s) but that effect happened %d time(s): a form was handed that was not about to be evaluated", k, n, seen[k]), Input: in})
					return
				}
			}
		}
		if rr.Class != ref.Class {
			c.Violate(fw.Violation{Key: "outcome:" + sc.name, What: fmt.Sprintf("without stepper: %s; with stepper script %s: %s", outcomeStr(ref), sc.name, outcomeStr(rr)), Input: in})
			return
		}
		if rr.Err == nil && !c12SameModuloGensym(rr.Val, ref.Val) {
			c.Violate(fw.Violation{Key: "value:" + sc.name, What: fmt.Sprintf("without stepper %s, with stepper %s", canon.Render(ref.Val), canon.Render(rr.Val)), Input: in})
			return
		}
		if rr.Thrown != nil && ref.Thrown != nil && !c12SameModuloGensym(rr.Thrown, ref.Thrown) {
			c.Violate(fw.Violation{Key: "thrown:" + sc.name, What: fmt.Sprintf("thrown value differs: %s vs %s", canon.Render(ref.Thrown), canon.Render(rr.Thrown)), Input: in})
			return
		}
		if len(rr.Trace) != len(ref.Trace) {
			c.Violate(fw.Violation{Key: "trace:" + sc.name, What: fmt.Sprintf("ordered side effects differ: %d events without stepper, %d with script %s", len(ref.Trace), len(rr.Trace), sc.name), Input: in})
			return
		}
		for k := range rr.Trace {
			if !c12SameModuloGensym(rr.Trace[k], ref.Trace[k]) {
				c.Violate(fw.Violation{Key: "trace:" + sc.name, What: fmt.Sprintf("trace event %d differs: %s vs %s", k, canon.Render(ref.Trace[k]), canon.Render(rr.Trace[k])), Input: in})
				return
			}
		}
	}
	// the same program under a context that has already ended: with or without a stepper, whatever it answers, the
	// evaluation stops with the same error and the same (absent) effects (seeded C18-m14: the deadline was only
	// honoured while no stepper was being consulted)
	if !b.ended && len(text)%4 == 0 && len(scripts) >= 4 {
		b.ended = true
		c.Count("programs_also_run_under_an_ended_context", 1)
		c18Compare(c, b, scripts[:4], sr, text, shape+"/ended-context", genuinelyUnbound)
		b.ended = false
	}
}

func init() {
	fw.Register(&fw.Property{
		ID:     "C18",
		Run:    runC18,
		Rule:   "seeded programs of the C01 (core, 5% faults), C03 (try/catch/finally, Go errors) and C12 (macros, quasiquote, library macros) generators, each evaluated without a stepper and then under 16 (quick) / 40 (thorough) scripted Stepper callbacks (constant NoOp/Next/In/Out, alternating pairs, patterned and seeded random command sequences); result (modulo gensym names), error class, thrown value and the ordered trace must be identical; the callback must never receive a nil scope nor a symbol that does not resolve in the scope handed with it (generator-known unbound names excepted); distinct = program skeletons with non-empty trace; plus 18 long-running programs (4000-12000 tail calls, mutual recursion, deep non-tail recursion, swap! loops, try nests unwinding) under 8 scripts; every (trace! :k) form handed to the callback must be followed by its effect (a handed form is about to be evaluated); programs include (macroexpand (m (trace! :k) 1)); a quarter of the programs are also run under a context cancelled beforehand, without a stepper and under the four constant scripts, with the same comparison",
		Assume: []string{"single-threaded (the Stepper is process-wide by design)", "recursion depth of generated programs is small, stepping replaces the loop by recursion"},
		Finish: func(m *fw.Merged) {
			m.Floor("programs", 500)
			m.Floor("stepped_runs", 5000)
			m.Floor("callback_invocations", 100000)
			for _, k := range []string{"noop", "next", "out", "in"} {
				m.Floor("cmd."+k, 1000)
			}
			m.Extra["commands_returned"] = m.CountsWithPrefix("cmd.")
			m.Extra["scripts"] = m.CountsWithPrefix("script.")
		},
	})
}
