package props

import (
	"bytes"
	"context"
	"errors"
	"fmt"
	"math/rand"
	"os"
	"path/filepath"
	"runtime"
	"strconv"
	"strings"
	"sync"
	"sync/atomic"
	"time"

	"github.com/jig/lisp"
	"github.com/jig/lisp/types"

	"verifharness/fw"
	"verifharness/gen"
	"verifharness/hx"
)

// C07: cancelling the context stops evaluation promptly.

func goid() int64 {
	var buf [64]byte
	n := runtime.Stack(buf[:], false)
	f := bytes.Fields(buf[:n])
	if len(f) < 2 {
		return -1
	}
	id, _ := strconv.ParseInt(string(f[1]), 10, 64)
	return id
}

type c07State struct {
	mu         sync.Mutex
	ticks      int64
	mainTicks  int64
	cancelAt   int64
	cancel     context.CancelFunc
	cancelled  atomic.Bool
	mainG      int64
	lateMain   int64             // ticks started by the evaluating goroutine after the cancel was issued
	lateOther  int64             // by other goroutines (futures): reported, not judged
	stamps     map[int64][]int64 // goroutine -> tick timestamps (ns since t0), deadline mode
	t0         time.Time
	handlerRan atomic.Int64
}

func c07Install(e types.EnvType, st *c07State) {
	e.Set(types.Symbol{Val: "tick!"}, types.Func{Fn: func(ctx context.Context, a []types.MalType) (types.MalType, error) {
		g := goid()
		if st.cancelled.Load() {
			if g == st.mainG {
				if atomic.AddInt64(&st.lateMain, 1) > 50 {
					// already a violation: make the runaway evaluation end instead of burning the time budget
					return nil, errors.New("verif: evaluation still running after its context was cancelled")
				}
			} else {
				atomic.AddInt64(&st.lateOther, 1)
			}
		}
		n := atomic.AddInt64(&st.ticks, 1)
		if st.stamps != nil {
			ts := time.Since(st.t0).Nanoseconds()
			st.mu.Lock()
			st.stamps[g] = append(st.stamps[g], ts)
			st.mu.Unlock()
		}
		if st.cancelAt > 0 && g == st.mainG {
			mt := atomic.AddInt64(&st.mainTicks, 1)
			if mt == st.cancelAt {
				st.cancelled.Store(true)
				st.cancel()
			}
		}
		return int(n), nil
	}})
	e.Set(types.Symbol{Val: "handler-ran!"}, types.Func{Fn: func(ctx context.Context, a []types.MalType) (types.MalType, error) {
		st.handlerRan.Add(1)
		return nil, nil
	}})
}

var c07AfterNodes = []string{"5", `"s"`, ":k", "true", "nil", "n", "(list)", "[1 (tick!)]", "{:a 1}", "#{:a}", "(+ 1 2)", "(quote x)", "`(1 ~n)"}

// c07Prelude defines the looping functions; every iteration calls (tick!) directly.
func c07Prelude(after string) string {
	return `(do
(def tail-loop (fn (n) (do (tick!) ` + after + ` (tail-loop (+ n 1)))))
(def down (fn (n) (if (< n 1) 0 (+ 1 (do (tick!) ` + after + ` (down (- n 1)))))))
(def nontail-loop (fn (n) (do (down 150) (nontail-loop (+ n 1)))))
(def ping (fn (n) (do (tick!) (pong (+ n 1)))))
(def pong (fn (n) (let (m n) (if true (do (tick!) ` + after + ` (ping m))))))
(defmacro mloop (fn (n) (do (tick!) (list 'mloop (+ n 1)))))
(def cond-loop (fn (n) (cond (< n 0) :never true (do (tick!) ` + after + ` (cond-loop (+ n 1))))))
(def and-loop (fn (n) (and (tick!) (or false (and-loop (+ n 1))))))
(def retry-loop (fn (n) (try (do (tick!) (sleep 60000)) (catch e (retry-loop (+ n 1))))))
(def retry-loop2 (fn (n) (try (tail-loop 0) (catch e (do (tick!) (retry-loop2 (+ n 1)))))))
)`
}

type c07Loop struct {
	name     string
	src      string
	blocking bool
}

var c07Loops = []c07Loop{
	{"tail", "(tail-loop 0)", false},
	{"nontail", "(nontail-loop 0)", false},
	{"mutual", "(ping 0)", false},
	{"macro", "(mloop 0)", false},
	{"cond", "(cond-loop 0)", false},
	{"and-or", "(and-loop 0)", false},
	{"map", "(map (fn (x) (tail-loop x)) [1 2 3])", false},
	{"apply", "(apply tail-loop [0])", false},
	{"reduce", "(reduce (fn (acc x) (tail-loop 0)) 0 [1 2])", false},
	{"swap!", "(swap! (atom 0) (fn (n) (tail-loop n)))", false},
	{"vector-literal", "[1 (tail-loop 0) 2]", false},
	{"map-literal", "{:a (tail-loop 0)}", false},
	{"let-binding", "(let (x (tail-loop 0)) x)", false},
	{"thread-macro", "(-> 0 (tail-loop))", false},
	{"retry-in-handler", "(retry-loop 0)", true},
	{"retry-in-handler-loop", "(retry-loop2 0)", false},
	{"eval", "(eval (quote (tail-loop 0)))", false},
	{"eval-nested", "(eval (list (quote do) (list (quote tick!)) (quote (eval (quote (ping 0))))))", false},
	{"load-file", "(load-file \"c07-loop.lisp\")", false}, // path set by runC07 (work directory)
	{"sleep", "(do (tick!) (sleep 60000))", true},
	{"future-sleep", "(do (tick!) @(future (sleep 60000)))", true},
	{"future-loop", "(do (tick!) @(future (tail-loop 0)))", true},
}

// c07Wrap nests the loop in try/catch/finally wrappers.
func c07Wrap(r *rand.Rand, inner string, depth int, loops []c07Loop) (src string, desc string) {
	if depth == 0 {
		return inner, ""
	}
	part := func() (string, string) {
		switch r.Intn(5) {
		case 0:
			return ":const", "const"
		case 1:
			l := loops[r.Intn(len(loops))]
			return l.src, "loop:" + l.name
		case 2:
			return "(do (tick!) (sleep 60000))", "sleep"
		case 3:
			s, d := c07Wrap(r, loops[r.Intn(6)].src, 1, loops)
			return s, "try[" + d + "]"
		default:
			return "(do (handler-ran!) (tail-loop 0))", "ran+loop"
		}
	}
	var d string
	switch r.Intn(4) {
	case 0:
		src, d = inner, "none"
	case 1:
		h, hd := part()
		src, d = fmt.Sprintf("(try %s (catch e %s))", inner, h), "catch("+hd+")"
	case 2:
		f, fd := part()
		src, d = fmt.Sprintf("(try %s (finally %s))", inner, f), "finally("+fd+")"
	default:
		h, hd := part()
		f, fd := part()
		src, d = fmt.Sprintf("(try %s (catch e %s) (finally %s))", inner, h, f), "catch("+hd+")+finally("+fd+")"
	}
	s2, d2 := c07Wrap(r, src, depth-1, loops)
	return s2, d + ">" + d2
}

func c07RunCancel(c *fw.Ctx, id string, prog, after, desc string, k int64, farDeadline bool) {
	c.Case(id, fmt.Sprintf("cancel at tick %d, node after tick %s: %s", k, after, prog), func() {
		env := hx.NewStdEnv()
		st := &c07State{cancelAt: k}
		c07Install(env, st)
		if o := hx.EvalText(context.Background(), c07Prelude(after), env); o.Err != nil || o.Panicked {
			panic(fmt.Sprint("prelude: ", o.Err, o.PanicMsg))
		}
		ast, err := lisp.READ(prog, nil, env)
		if err != nil {
			panic(err)
		}
		ctx, cancel := context.WithCancel(context.Background())
		if farDeadline {
			// a context that also carries a (far) deadline and is cancelled explicitly long before it
			var c2 context.CancelFunc
			ctx, c2 = context.WithTimeout(ctx, 100*time.Second)
			defer c2()
			c.Count("cancel_mode_with_far_deadline", 1)
		}
		st.cancel = cancel
		defer cancel()
		var o hx.Outcome
		ok := fw.WithTimeout(60*time.Second, func() {
			st.mainG = goid()
			o = hx.Eval(ctx, ast, env)
		})
		c.Count("programs", 1)
		c.Count("ticks_recorded", int(atomic.LoadInt64(&st.ticks)))
		c.Count("late_ticks_other_threads", int(atomic.LoadInt64(&st.lateOther)))
		if !ok {
			c.Violate(fw.Violation{Key: "cancel:never-returned:" + desc0(desc), What: "EVAL did not return within 60 s after the context was cancelled from inside a tick", Detail: fw.GoroutineDump()})
			c.Runaway()
			return
		}
		if o.Panicked {
			c.Violate(fw.Violation{Key: "panic@" + o.Site, What: "EVAL panicked after cancellation: " + o.PanicMsg, Detail: o.Stack})
			return
		}
		if !st.cancelled.Load() {
			c.Count("cancel_not_reached", 1)
			return
		}
		if n := atomic.LoadInt64(&st.lateMain); n > 0 {
			c.Violate(fw.Violation{Key: "cancel:ticks-after-cancel:" + desc0(desc), What: fmt.Sprintf("the evaluating thread started %d further tick(s) after the context had been cancelled inside tick %d", n, k)})
			return
		}
		if o.Err == nil {
			c.Violate(fw.Violation{Key: "cancel:value-returned", What: fmt.Sprintf("EVAL returned the value %v although the program could not have finished", o.Val)})
			return
		}
		if hx.Classify(o.Err) != hx.ETimeout {
			c.Violate(fw.Violation{Key: "cancel:not-a-timeout-error", What: "EVAL returned a different error: " + o.Err.Error()})
			return
		}
		c.Count("timeout_errors", 1)
	})
}

func desc0(d string) string {
	if i := strings.Index(d, ">"); i >= 0 {
		d = d[:i]
	}
	if i := strings.Index(d, "("); i >= 0 {
		d = d[:i]
	}
	return d
}

func c07RunDeadline(c *fw.Ctx, canary *hx.Canary, id string, prog, after, desc string, dl time.Duration, expectHandled bool) {
	c.Case(id, fmt.Sprintf("deadline %v: %s", dl, prog), func() {
		// The handler of the outermost try has the last fifth of the deadline to return its constant. On a loaded
		// machine a scheduling delay can eat that window (60-140 ms) without the interpreter being at fault, so a missed
		// handler is re-examined twice with a deadline four and sixteen times as long: an interpreter that really
		// does not run the handler misses it at every deadline.
		for attempt, d := 0, dl; ; attempt, d = attempt+1, d*4 {
			if !c07DeadlineOnce(c, canary, prog, after, desc, d, expectHandled, attempt == 2) {
				return
			}
			c.Count("handler_window_retries", 1)
		}
	})
}

// c07DeadlineOnce runs one deadline case; it returns true when only the handler's value was missing and the caller may
// re-examine with a longer deadline (never when last is set: then the miss is reported).
func c07DeadlineOnce(c *fw.Ctx, canary *hx.Canary, prog, after, desc string, dl time.Duration, expectHandled, last bool) (again bool) {
	{
		env := hx.NewStdEnv()
		st := &c07State{stamps: map[int64][]int64{}, t0: time.Now()}
		c07Install(env, st)
		if o := hx.EvalText(context.Background(), c07Prelude(after), env); o.Err != nil || o.Panicked {
			panic(fmt.Sprint("prelude: ", o.Err, o.PanicMsg))
		}
		ast, err := lisp.READ(prog, nil, env)
		if err != nil {
			panic(err)
		}
		canary.Take()
		ctx, cancel := context.WithTimeout(context.Background(), dl)
		defer cancel()
		var doneAt atomic.Int64
		go func() { <-ctx.Done(); doneAt.Store(time.Since(st.t0).Nanoseconds()) }()
		var o hx.Outcome
		var retAt int64
		ok := fw.WithTimeout(dl+60*time.Second, func() {
			st.mainG = goid()
			o = hx.Eval(ctx, ast, env)
			retAt = time.Since(st.t0).Nanoseconds()
		})
		late := canary.Take()
		c.Count("deadline_programs", 1)
		if !ok {
			c.Violate(fw.Violation{Key: "deadline:never-returned:" + desc0(desc), What: fmt.Sprintf("EVAL did not return within 60 s after the %v deadline", dl), Detail: fw.GoroutineDump()})
			c.Runaway()
			return
		}
		if o.Panicked {
			c.Violate(fw.Violation{Key: "panic@" + o.Site, What: "EVAL panicked: " + o.PanicMsg, Detail: o.Stack})
			return
		}
		for doneAt.Load() == 0 {
			time.Sleep(time.Millisecond)
		}
		d := doneAt.Load()
		// logical: at most one tick per thread may start after the watcher saw Done (it may already be past its check)
		const slack = int64(2 * time.Millisecond) // the watcher goroutine itself may be scheduled late
		st.mu.Lock()
		worst := 0
		for _, ts := range st.stamps {
			n := 0
			for _, t := range ts {
				if t > d+slack {
					n++
				}
			}
			if n > worst {
				worst = n
			}
		}
		st.mu.Unlock()
		c.Max("max_ticks_after_deadline_per_thread", int64(worst))
		if worst >= 2 {
			if late > 250*time.Millisecond {
				c.Count("discarded_by_canary", 1)
				return
			}
			c.Violate(fw.Violation{Key: "deadline:ticks-after-deadline:" + desc0(desc), What: fmt.Sprintf("a thread started %d ticks more than 2 ms after the deadline was observed", worst)})
			return
		}
		lat := time.Duration(retAt - d)
		c.Max("max_return_latency_us", int64(lat/time.Microsecond))
		if lat > 5*time.Second {
			if late > 250*time.Millisecond {
				c.Count("discarded_by_canary", 1)
				return
			}
			c.Violate(fw.Violation{Key: "deadline:late-return:" + desc0(desc), What: fmt.Sprintf("EVAL returned %v after the deadline", lat)})
			return
		}
		if expectHandled {
			c.Count("handler_expected", 1)
			wantInner := strings.HasPrefix(desc, "inner-handler")
			if wantInner {
				c.Count("inner_handler_expected", 1)
			}
			if o.Err != nil || (!wantInner && o.Val != "ʞhandled" && o.Val != "ʞconst") || (wantInner && o.Val != "ʞinner") {
				if !last {
					return true
				}
				c.Violate(fw.Violation{Key: "deadline:handler-did-not-run", What: fmt.Sprintf("a timeout in a try body under a deadline must be catchable and the constant handler's value returned; got value=%v err=%v (also with deadlines 4 and 16 times as long; last %v)", o.Val, o.Err, dl)})
				return
			}
			c.Count("handler_ran", 1)
		} else if o.Err == nil {
			c.Violate(fw.Violation{Key: "deadline:value-returned", What: fmt.Sprintf("EVAL returned the value %v although the program could not have finished", o.Val)})
		}
	}
	return false
}

// c07RunBlocking: asynchronous cancel while the program is blocked in a builtin; wall-clock bounded.
func c07RunBlocking(c *fw.Ctx, canary *hx.Canary, id string, prog string, delay time.Duration) {
	c.Case(id, fmt.Sprintf("async cancel after %v: %s", delay, prog), func() {
		env := hx.NewStdEnv()
		st := &c07State{}
		c07Install(env, st)
		hx.EvalText(context.Background(), c07Prelude("nil"), env)
		if i := strings.Index(prog, "|||"); i >= 0 {
			// an earlier evaluation on the same environment, under its own context that outlives the cancelled one
			// (other users of the same futures keep waiting while this caller's context ends)
			sctx, scancel := context.WithCancel(context.Background())
			defer scancel()
			if o := hx.EvalText(sctx, prog[:i], env); o.Err != nil || o.Panicked {
				panic(fmt.Sprint("setup: ", o.Err, o.PanicMsg))
			}
			prog = strings.TrimSpace(prog[i+3:])
			c.Count("blocking_programs_with_earlier_evaluation", 1)
		}
		ast, err := lisp.READ(prog, nil, env)
		if err != nil {
			panic(err)
		}
		ctx, cancel := context.WithCancel(context.Background())
		if (delay/time.Millisecond)%2 == 1 {
			// the cancelled context also carries a deadline far in the future (an explicit cancel must not wait for it)
			var c2 context.CancelFunc
			ctx, c2 = context.WithTimeout(ctx, 10*time.Minute)
			defer c2()
			c.Count("blocking_programs_with_far_deadline", 1)
		}
		defer cancel()
		canary.Take()
		var cancelAt time.Time
		go func() { time.Sleep(delay); cancelAt = time.Now(); cancel() }()
		var o hx.Outcome
		var ret time.Time
		ok := fw.WithTimeout(delay+30*time.Second, func() { o = hx.Eval(ctx, ast, env); ret = time.Now() })
		late := canary.Take()
		c.Count("blocking_programs", 1)
		if !ok {
			c.Violate(fw.Violation{Key: "blocking:never-returned", What: "EVAL still blocked 30 s after cancellation", Detail: fw.GoroutineDump()})
			c.Runaway()
			return
		}
		if o.Panicked {
			c.Violate(fw.Violation{Key: "panic@" + o.Site, What: o.PanicMsg, Detail: o.Stack})
			return
		}
		lat := ret.Sub(cancelAt)
		c.Max("max_blocking_return_latency_us", int64(lat/time.Microsecond))
		if lat > 5*time.Second {
			if late > 250*time.Millisecond {
				c.Count("discarded_by_canary", 1)
				return
			}
			c.Violate(fw.Violation{Key: "blocking:late-return", What: fmt.Sprintf("EVAL returned %v after the asynchronous cancel (normal: < 5 ms)", lat)})
			return
		}
		if o.Err == nil || hx.Classify(o.Err) != hx.ETimeout {
			c.Violate(fw.Violation{Key: "blocking:not-a-timeout-error", What: fmt.Sprintf("value=%v err=%v", o.Val, o.Err)})
		}
	})
}

func runC07(c *fw.Ctx) {
	loopFile := filepath.Join(c.WorkDir, fmt.Sprintf("c07-loop-%d.lisp", c.Shard))
	os.WriteFile(loopFile, []byte(";; loaded by C07\n(tick!)\n(tail-loop 0)\n"), 0o644)
	for i := range c07Loops {
		if c07Loops[i].name == "load-file" {
			c07Loops[i].src = fmt.Sprintf("(load-file %q)", loopFile)
		}
	}
	r := c.Rand("progs")
	canary := hx.StartCanary()
	defer canary.Stop()
	ks := []int64{1, 2, 3, 10, 100, 1000}
	var nonBlocking []c07Loop
	for _, l := range c07Loops {
		if !l.blocking {
			nonBlocking = append(nonBlocking, l)
		}
	}
	// (1) cancel mode: every loop kind x every node kind after the cancelling tick x k, unwrapped
	idx := 0
	for _, l := range c07Loops {
		for ai, after := range c07AfterNodes {
			k := ks[(idx+ai)%len(ks)]
			if l.blocking {
				k = 1
			}
			if c.Mine(idx) {
				c07RunCancel(c, fmt.Sprintf("cancel-%s-%d", l.name, ai), l.src, after, "none", k, (idx+ai)%2 == 1)
				c.Count("loop."+l.name, 1)
				c.Distinct("shapes", l.name+"|"+after)
			}
			idx++
		}
	}
	// (2) cancel mode with wrappers
	for i := 0; i < c.PerShard(c.Pick(3000, 60000)); i++ {
		l := c07Loops[r.Intn(len(c07Loops))]
		after := gen.Pick(r, c07AfterNodes)
		prog, desc := c07Wrap(r, l.src, 1+r.Intn(4), nonBlocking)
		k := ks[r.Intn(len(ks))]
		if l.blocking {
			k = 1
		}
		c07RunCancel(c, fmt.Sprintf("wrapped-%d", i), prog, after, desc, k, i%2 == 1)
		c.Count("loop."+l.name, 1)
		c.Count("wrapper."+desc0(desc), 1)
		c.Distinct("shapes", l.name+"|"+desc)
		if i == 0 {
			c.Sample(prog)
		}
	}
	// (3) deadline mode (wall clock involved only through the deadline itself; verdict on tick timestamps)
	for i := 0; i < c.PerShard(c.Pick(96, 2400)); i++ {
		l := nonBlocking[r.Intn(len(nonBlocking))]
		dl := time.Duration(300+r.Intn(400)) * time.Millisecond
		switch r.Intn(3) {
		case 0:
			c07RunDeadline(c, canary, fmt.Sprintf("deadline-%d", i), l.src, "nil", "none", dl, false)
		case 1:
			// outermost try with a constant handler: the handler's value must come back
			inner, desc := c07Wrap(r, l.src, r.Intn(3), nonBlocking)
			fin := ""
			if r.Intn(3) == 0 {
				fin = " (finally (tail-loop 0))"
			}
			c07RunDeadline(c, canary, fmt.Sprintf("deadline-%d", i), fmt.Sprintf("(try %s (catch e :handled)%s)", inner, fin), "nil", "catch-const>"+desc, dl, true)
		default:
			prog, desc := c07Wrap(r, l.src, 1+r.Intn(3), nonBlocking)
			// a wrapped program may legitimately end with a handler's constant value: not judged for value/error
			c07RunDeadlineFree(c, canary, fmt.Sprintf("deadline-%d", i), prog, desc, dl)
		}
		if i%4 == 0 {
			// nested tries: the timeout is raised in the innermost body and it is the innermost handler that gets to
			// run; its constant is the value of the whole (lexical nesting, through a call, with a finally in between)
			var prog string
			switch r.Intn(4) {
			case 0:
				prog = fmt.Sprintf("(try (try %s (catch e :inner)) (catch e2 :outer))", l.src)
			case 1:
				prog = fmt.Sprintf("(try (try (try %s (catch e :inner)) (catch e2 :middle)) (catch e3 :outer))", l.src)
			case 2:
				prog = fmt.Sprintf("(do (def inner-f (fn () (try %s (catch e :inner)))) (try (inner-f) (catch e2 :outer)))", l.src)
			default:
				prog = fmt.Sprintf("(try (try (try %s (catch e :inner)) (finally (tick!))) (catch e2 :outer))", l.src)
			}
			c07RunDeadline(c, canary, fmt.Sprintf("deadline-nested-%d", i), prog, "nil", "inner-handler>"+l.name, dl, true)
		}
	}
	// (3b) retry loops whose handler re-enters the try in tail position, under a natural deadline
	for i := 0; i < c.PerShard(c.Pick(16, 200)); i++ {
		dl := time.Duration(150+r.Intn(300)) * time.Millisecond
		c07RunDeadlineFree(c, canary, fmt.Sprintf("deadline-retry-%d", i), gen.Pick(r, []string{"(retry-loop 0)", "(retry-loop2 0)", "(try (retry-loop 0) (catch e :const))"}), "retry", dl)
	}
	// (4) blocking builtins under asynchronous cancel
	blocking := []string{"(sleep 60000)", "(sleep 9000)", "(try (sleep 9000) (catch e (sleep 9000)))", "(do (sleep 9000) :slept)",
		// macros whose expansion is a quoted (read) form calling themselves or each other: expansion never ends
		"(do (defmacro spin-quoted (fn () (quote (spin-quoted)))) (spin-quoted))",
		"(do (defmacro ping-q (fn (x) (quote (pong-q 1)))) (defmacro pong-q (fn (x) (quote (ping-q 2)))) (def run-pq (fn () (try (ping-q 0) (catch e (ping-q 0))))) (run-pq))",
		// tens of thousands of pending non-tail calls when the context ends: unwinding them is part of the bound
		"(do (def deep-wait (fn (n) (if (< n 1) (sleep 60000) (+ 1 (deep-wait (- n 1)))))) (deep-wait 40000))",
		"(do (def deep-spin (fn (n) (if (< n 1) (tail-loop 0) (+ 1 (deep-spin (- n 1)))))) (deep-spin 40000))", "@(future (sleep 60000))", "@(future (tail-loop 0))", "(try (sleep 60000) (catch e (sleep 60000)))", "(try @(future (sleep 60000)) (finally (sleep 60000)))", "(map (fn (x) (sleep 60000)) [1 2])", "(swap! (atom 0) (fn (n) (sleep 60000)))",
		"(do (def slow (future (sleep 60000))) (def watcher (future @slow)) (sleep 5)) ||| @slow",
		"(do (def slow (future (sleep 60000))) (def w1 (future @slow)) (def w2 (future (try @slow (catch e 1)))) (sleep 5)) ||| (try @slow (catch e (sleep 60000)))",
		"(do (def slow (future (sleep 60000))) (sleep 1)) ||| (do (def w (future @slow)) (sleep 5) @slow)",
		"(do (def a (atom 0)) (def busy (future (swap! a (fn (n) (do (sleep 60000) n))))) (sleep 5)) ||| (swap! a (fn (n) (do (sleep 60000) n)))",
		"(do (def a (atom 0)) (def busy (future (swap! a (fn (n) (do (sleep 60000) n))))) (sleep 5)) ||| (do @a (reset! a 1) (str a) (sleep 60000))"}
	for i := 0; i < c.PerShard(c.Pick(160, 4000)); i++ {
		bp := blocking[r.Intn(len(blocking))]
		delay := time.Duration(2+r.Intn(40)) * time.Millisecond
		if strings.Contains(bp, "40000") {
			delay += 400 * time.Millisecond // time to get 40000 calls deep
		}
		c07RunBlocking(c, canary, fmt.Sprintf("blocking-%d", i), bp, delay)
	}
}

// c07RunDeadlineFree: like c07RunDeadline but the final value/error is not prescribed (wrappers may return constants).
func c07RunDeadlineFree(c *fw.Ctx, canary *hx.Canary, id, prog, desc string, dl time.Duration) {
	c.Case(id, fmt.Sprintf("deadline %v: %s", dl, prog), func() {
		env := hx.NewStdEnv()
		st := &c07State{stamps: map[int64][]int64{}, t0: time.Now()}
		c07Install(env, st)
		hx.EvalText(context.Background(), c07Prelude("nil"), env)
		ast, err := lisp.READ(prog, nil, env)
		if err != nil {
			panic(err)
		}
		canary.Take()
		ctx, cancel := context.WithTimeout(context.Background(), dl)
		defer cancel()
		var doneAt atomic.Int64
		go func() { <-ctx.Done(); doneAt.Store(time.Since(st.t0).Nanoseconds()) }()
		var o hx.Outcome
		var retAt int64
		ok := fw.WithTimeout(dl+60*time.Second, func() {
			st.mainG = goid()
			o = hx.Eval(ctx, ast, env)
			retAt = time.Since(st.t0).Nanoseconds()
		})
		late := canary.Take()
		c.Count("deadline_programs", 1)
		c.Count("wrapper."+desc0(desc), 1)
		if !ok {
			c.Violate(fw.Violation{Key: "deadline:never-returned:" + desc0(desc), What: fmt.Sprintf("EVAL did not return within 60 s after the %v deadline", dl), Detail: fw.GoroutineDump()})
			c.Runaway()
			return
		}
		if o.Panicked {
			c.Violate(fw.Violation{Key: "panic@" + o.Site, What: "EVAL panicked: " + o.PanicMsg, Detail: o.Stack})
			return
		}
		for doneAt.Load() == 0 {
			time.Sleep(time.Millisecond)
		}
		d := doneAt.Load()
		const slack = int64(2 * time.Millisecond)
		st.mu.Lock()
		worst := 0
		for g, ts := range st.stamps {
			if g != st.mainG {
				continue // background futures are not in the statement
			}
			n := 0
			for _, t := range ts {
				if t > d+slack {
					n++
				}
			}
			if n > worst {
				worst = n
			}
		}
		st.mu.Unlock()
		c.Max("max_ticks_after_deadline_per_thread", int64(worst))
		if worst >= 2 && late <= 250*time.Millisecond {
			c.Violate(fw.Violation{Key: "deadline:ticks-after-deadline:" + desc0(desc), What: fmt.Sprintf("the evaluating thread started %d ticks more than 2 ms after the deadline was observed", worst)})
			return
		}
		if lat := time.Duration(retAt - d); lat > 5*time.Second && late <= 250*time.Millisecond {
			c.Violate(fw.Violation{Key: "deadline:late-return:" + desc0(desc), What: fmt.Sprintf("EVAL returned %v after the deadline", lat)})
		}
	})
}

func init() {
	fw.Register(&fw.Property{
		ID:  "C07",
		Run: runC07,
		TimeoutS: func(tier string) int {
			if tier == "thorough" {
				return 2400
			}
			return 300
		},
		Shards: func(tier string) int { return 8 },
		Rule:   "programs = 17 loop kinds (tail, bounded non-tail and mutual recursion, recursive macro expansion, cond/and/or loops, map/apply/reduce/swap! over a looping closure, loops inside vector/map literals, let bindings and -> forms, sleep, deref of a sleeping or looping future) x 13 AST node kinds evaluated right after the cancelling tick, bare and inside try/catch/finally nests to depth 4 whose handlers and finally bodies are constants, loops, sleeps or further tries; cancel mode: the context is cancelled from inside the k-th tick! (k in 1,2,3,10,100,1000) of the evaluating thread - zero further ticks by that thread and a timeout error are required (no clock involved); deadline mode (300-700 ms): at most one tick per thread later than the observed Done, return within 5 s, and a try whose outermost handler is a constant must return that constant; blocking builtins under asynchronous cancel must return within 5 s (canary-qualified); distinct = (loop kind, wrapper nest / node kind); blocking programs also run after an earlier evaluation on the same environment whose own context lives on (a watcher future dereferencing the same future, a swap! busy on the same atom); under natural deadlines nested tries (lexical, through a call, with a finally between) must return the innermost handler's constant; a missed handler is re-examined with 4x and 16x the deadline before it is reported",
		Assume: []string{"futures still running in the background after EVAL returned are not in the statement", "a wall-clock observation made while the load canary saw > 250 ms lateness is discarded"},
		Finish: func(m *fw.Merged) {
			m.Floor("programs", 200)
			m.Floor("timeout_errors", 200)
			m.Floor("deadline_programs", 20)
			m.Floor("handler_ran", 3)
			m.Floor("blocking_programs", 20)
			m.Extra["loops"] = m.CountsWithPrefix("loop.")
			m.Extra["wrappers"] = m.CountsWithPrefix("wrapper.")
		},
	})
}
