package props

import (
	"context"
	"fmt"
	"math/rand"
	"strings"
	"sync"

	"github.com/jig/lisp/types"

	"verifharness/canon"
	"verifharness/fw"
	"verifharness/gen"
	"verifharness/hx"
)

// C02: lisp values are immutable — snapshot invariant after every step + race detector.

type c02Val struct {
	name  string
	snap  *canon.Node
	ext   int  // times used as the extended operand
	spare bool // backing array has cap > len
	view  bool // produced by subvec/rest/seq/vec/take…
}

func c02Spare(v types.MalType) bool {
	switch t := v.(type) {
	case types.List:
		return cap(t.Val) > len(t.Val)
	case types.Vector:
		return cap(t.Val) > len(t.Val)
	}
	return false
}

type c02Seq struct {
	c     *fw.Ctx
	r     *rand.Rand
	env   types.EnvType
	vals  []*c02Val
	log   []string
	nAtom int
	nFn   int
}

func (s *c02Seq) byKind(pred func(*canon.Node) bool) []*c02Val {
	var out []*c02Val
	for _, v := range s.vals {
		if pred(v.snap) {
			out = append(out, v)
		}
	}
	return out
}

// pick prefers values that were extended fewer than twice, views and values with spare capacity.
func (s *c02Seq) pick(pred func(*canon.Node) bool) *c02Val {
	cands := s.byKind(pred)
	if len(cands) == 0 {
		return nil
	}
	var weighted []*c02Val
	for _, v := range cands {
		w := 1
		if v.ext < 2 {
			w += 2
		}
		if v.ext == 1 {
			w += 3 // second extension of the same parent is what exposes aliasing
		}
		if v.spare {
			w += 3
		}
		if v.view {
			w += 2
		}
		for i := 0; i < w; i++ {
			weighted = append(weighted, v)
		}
	}
	return weighted[s.r.Intn(len(weighted))]
}

func isVecN(n *canon.Node) bool  { return n.K == canon.Vec }
func isListN(n *canon.Node) bool { return n.K == canon.List }
func isSeqN(n *canon.Node) bool  { return n.K == canon.Vec || n.K == canon.List }
func isMapN(n *canon.Node) bool  { return n.K == canon.Map }
func isSetN(n *canon.Node) bool  { return n.K == canon.Set }
func isCollN(n *canon.Node) bool { return isSeqN(n) || isMapN(n) || isSetN(n) }

// eval evaluates text; returns the value or nil on error.
func (s *c02Seq) eval(src string) (types.MalType, bool) {
	o := hx.EvalText(context.Background(), src, s.env)
	if o.Panicked {
		s.c.Count("step_panics", 1) // a C04 matter
		return nil, false
	}
	if o.Err != nil {
		s.c.Count("step_errors", 1)
		return nil, false
	}
	return o.Val, true
}

// bind runs (def name expr), snapshots the new value, then re-inspects every earlier value.
func (s *c02Seq) bind(expr string, op string, view bool, extended ...*c02Val) bool {
	name := fmt.Sprintf("v%d", len(s.vals))
	src := fmt.Sprintf("(def %s %s)", name, expr)
	s.log = append(s.log, src)
	v, ok := s.eval(src)
	if !ok {
		// a step that fails must leave every existing value alone as well
		s.c.Count("failed_steps_followed_by_inspection", 1)
		okAll := s.inspect(op + "(failed)")
		s.log = s.log[:len(s.log)-1]
		return okAll
	}
	for _, e := range extended {
		e.ext++
		if e.ext >= 2 {
			s.c.Count("parents_extended_twice_or_more", 1)
		}
		if e.spare {
			s.c.Count("extensions_of_value_with_spare_capacity", 1)
		}
		if e.view {
			s.c.Count("extensions_of_views", 1)
		}
	}
	s.c.Count("steps", 1)
	s.c.Count("op."+op, 1)
	okAll := s.inspect(op)
	s.vals = append(s.vals, &c02Val{name: name, snap: canon.FromGo(v), spare: c02Spare(v), view: view})
	return okAll
}

// effect runs an expression for its effect on reference objects (atoms) and re-inspects.
func (s *c02Seq) effect(src string, op string) bool {
	s.log = append(s.log, src)
	if _, ok := s.eval(src); !ok {
		s.log = s.log[:len(s.log)-1]
		return true
	}
	s.c.Count("steps", 1)
	s.c.Count("op."+op, 1)
	return s.inspect(op)
}

func (s *c02Seq) inspect(op string) bool {
	for _, old := range s.vals {
		cur, err := s.env.Get(types.Symbol{Val: old.name})
		s.c.Count("snapshot_comparisons", 1)
		if err != nil {
			s.c.Violate(fw.Violation{Key: "binding-lost", What: old.name + " became unbound", Input: strings.Join(s.log, "\n")})
			return false
		}
		if now := canon.FromGo(cur); !canon.Equal(now, old.snap) {
			s.c.Violate(fw.Violation{Key: "mutated-by:" + op + ":" + old.snap.K.String(),
				What:  fmt.Sprintf("%s was %s when bound and is %s after the last step (%s)", old.name, canon.Render(old.snap), canon.Render(now), s.log[len(s.log)-1]),
				Input: strings.Join(s.log, "\n")})
			return false
		}
	}
	return true
}

func (s *c02Seq) scalar() string {
	r := s.r
	switch r.Intn(5) {
	case 0:
		return fmt.Sprint(r.Intn(100))
	case 1:
		return fmt.Sprintf(":k%d", r.Intn(5))
	case 2:
		return fmt.Sprintf("\"s%d\"", r.Intn(5))
	case 3:
		return "nil"
	default:
		return fmt.Sprint(100 + r.Intn(100))
	}
}

func (s *c02Seq) key() string {
	if s.r.Intn(2) == 0 {
		return fmt.Sprintf(":k%d", s.r.Intn(5))
	}
	return fmt.Sprintf("\"s%d\"", s.r.Intn(5))
}

func (s *c02Seq) seed() {
	seeds := []struct {
		src  string
		view bool
	}{
		{"[1 2 3]", false}, {"(quote (1 2 3))", false}, {"(conj [1 2] 3)", false}, {"(vec (range 0 5))", false}, {"(list 1 2 3 4 5)", false},
		{"{:k0 1 \"s1\" [1 2]}", false}, {"#{:k0 \"s1\"}", false}, {"[[1 2] (quote (3 4)) {:k1 [5]}]", false}, {"(subvec [0 1 2 3 4 5] 1 4)", true},
		{"(rest [0 1 2 3])", true}, {"(concat [1 2] [3])", false}, {"(quote ())", false}, {"[]", false}, {"(seq [7 8 9])", true}, {"(take 2 [4 5 6 7])", true},
		{"(apply list (range 0 6))", false}, {"(map inc [1 2 3])", false}, {"(quote [1 2 3])", false}, {"(quote [[1 2] (3 4) {:k [5]}])", false}, {"(first (quote ([7 8 9])))", true},
	}
	s.r.Shuffle(len(seeds), func(i, j int) { seeds[i], seeds[j] = seeds[j], seeds[i] })
	for _, sd := range seeds[:6+s.r.Intn(6)] {
		s.bind(sd.src, "seed", sd.view)
	}
}

// step performs one derived operation; returns false after a violation.
// c02Texts: contents of binary values - JSON with and without comments, lisp text, bytes that are not UTF-8 when cut.
var c02Texts = []string{`{"a": 1, // first\n "b": [1, 2]}`, `[1, /* two */ 2, "x//y"]`, `{"k":"v"}`, `[1,2,3]`, `(+ 1 2) ; c`, `plain text`, `caf\u00e9 \\ "q"`, ``}

func isBinN(n *canon.Node) bool { return n.K == canon.Opaque && strings.HasPrefix(n.S, "binary:") }

func (s *c02Seq) step() bool {
	r := s.r
	switch r.Intn(42) {
	case 39:
		// binary values are data too (statement: everything except atoms and futures)
		t := c02Texts[r.Intn(len(c02Texts))]
		if r.Intn(2) == 0 {
			return s.bind(fmt.Sprintf("(str2binary %q)", t), "binary-new", false)
		}
		return s.bind(fmt.Sprintf("(unbase64 (base64 (str2binary %q)))", t), "binary-new", false)
	case 40, 41:
		if b := s.pick(isBinN); b != nil {
			use := []string{"(json-decode {} %s)", "(json-decode [] %s)", "(json-decode (list) %s)", "(binary2str %s)", "(base64 %s)", "(str %s)", "(pr-str %s)", "(list %s %s)", "(= %s %s)", "(hash-map :b %s)", "(read-string (binary2str %s))", "(count %s)", "(first %s)", "(conj [] %s)"}[r.Intn(14)]
			return s.bind(strings.ReplaceAll(use, "%s", b.name), "binary-use", false, b)
		}
		return s.bind(fmt.Sprintf("(str2binary %q)", c02Texts[r.Intn(len(c02Texts))]), "binary-new", false)
	case 0, 1, 2, 3:
		if v := s.pick(isSeqN); v != nil {
			n := 1 + r.Intn(2)
			args := ""
			for i := 0; i < n; i++ {
				args += " " + s.scalar()
			}
			return s.bind(fmt.Sprintf("(conj %s%s)", v.name, args), "conj-"+v.snap.K.String(), false, v)
		}
	case 4, 5, 6:
		if a := s.pick(isSeqN); a != nil {
			b := s.pick(isSeqN)
			switch r.Intn(3) {
			case 0:
				return s.bind(fmt.Sprintf("(concat %s [%s])", a.name, s.scalar()), "concat", false, a)
			case 1:
				return s.bind(fmt.Sprintf("(concat %s %s)", a.name, b.name), "concat", false, a)
			default:
				return s.bind(fmt.Sprintf("(concat %s %s (list %s))", a.name, b.name, s.scalar()), "concat", false, a)
			}
		}
	case 7:
		if a := s.pick(isSeqN); a != nil {
			return s.bind(fmt.Sprintf("(cons %s %s)", s.scalar(), a.name), "cons", false, a)
		}
	case 8, 9:
		if m := s.pick(isMapN); m != nil {
			return s.bind(fmt.Sprintf("(assoc %s %s %s)", m.name, s.key(), s.scalar()), "assoc-map", false, m)
		}
	case 10:
		if v := s.pick(func(n *canon.Node) bool { return isVecN(n) && len(n.L) > 0 }); v != nil {
			idx := r.Intn(len(v.snap.L))
			if r.Intn(4) == 0 {
				// the indices around the end of the vector: errors today; a tree that accepts them must still not
				// write through to the backing array it shares with other values (seeded C02-m13)
				idx = len(v.snap.L) + r.Intn(3) - 1
				s.c.Count("assoc_vector_at_boundary_index", 1)
			}
			return s.bind(fmt.Sprintf("(assoc %s %d %s)", v.name, idx, s.scalar()), "assoc-vector", false, v)
		}
	case 11:
		if m := s.pick(func(n *canon.Node) bool { return isMapN(n) || isSetN(n) }); m != nil {
			switch r.Intn(3) {
			case 0:
				return s.bind(fmt.Sprintf("(dissoc %s %s)", m.name, s.key()), "dissoc", false, m)
			case 1:
				// first key absent, later ones possibly present
				return s.bind(fmt.Sprintf("(dissoc %s :absent-key %s %s)", m.name, s.key(), s.key()), "dissoc-multi", false, m)
			default:
				return s.bind(fmt.Sprintf("(dissoc %s %s \"absent\" %s)", m.name, s.key(), s.key()), "dissoc-multi", false, m)
			}
		}
	case 12, 13:
		if v := s.pick(func(n *canon.Node) bool { return isVecN(n) && len(n.L) > 0 }); v != nil {
			a := r.Intn(len(v.snap.L))
			b := a + r.Intn(len(v.snap.L)-a+1)
			return s.bind(fmt.Sprintf("(subvec %s %d %d)", v.name, a, b), "subvec", true, v)
		}
	case 14:
		if a := s.pick(isSeqN); a != nil {
			return s.bind(fmt.Sprintf("(%s %s)", []string{"rest", "vec", "seq"}[r.Intn(3)], a.name), "view", true, a)
		}
	case 15:
		if a := s.pick(isSeqN); a != nil {
			return s.bind(fmt.Sprintf("(%s %d %s)", []string{"take", "take-last", "drop", "drop-last"}[r.Intn(4)], r.Intn(4), a.name), "take-drop", true, a)
		}
	case 16:
		if m := s.pick(isMapN); m != nil {
			m2 := s.pick(isMapN)
			return s.bind(fmt.Sprintf("(merge %s %s)", m.name, m2.name), "merge", false, m)
		}
	case 17:
		if m := s.pick(isMapN); m != nil {
			return s.bind(fmt.Sprintf("(rename-keys %s {%s %s})", m.name, s.key(), s.key()), "rename-keys", false, m)
		}
	case 18:
		if a := s.pick(isCollN); a != nil {
			return s.bind(fmt.Sprintf("(with-meta %s {:m %s})", a.name, s.scalar()), "with-meta", false, a)
		}
	case 19:
		if m := s.pick(isMapN); m != nil {
			switch r.Intn(3) {
			case 0:
				return s.bind(fmt.Sprintf("(assoc-in %s [%s %s] %s)", m.name, s.key(), s.key(), s.scalar()), "assoc-in", false, m)
			case 1:
				return s.bind(fmt.Sprintf("(update %s %s (fn (x) (conj (if (vector? x) x []) %s)))", m.name, s.key(), s.scalar()), "update", false, m)
			default:
				return s.bind(fmt.Sprintf("(update-in %s [%s] (fn (x) (conj (if (vector? x) x []) %s)))", m.name, s.key(), s.scalar()), "update-in", false, m)
			}
		}
	case 20:
		if v := s.pick(isVecN); v != nil {
			return s.bind(fmt.Sprintf("(apply conj %s [%s %s])", v.name, s.scalar(), s.scalar()), "apply-conj", false, v)
		}
	case 21:
		if a := s.pick(isSeqN); a != nil {
			b := s.pick(isSeqN)
			return s.bind(fmt.Sprintf("(apply concat [%s %s])", a.name, b.name), "apply-concat", false, a)
		}
	case 22:
		// map over elements that are themselves pool collections
		if a := s.pick(isVecN); a != nil {
			b := s.pick(isVecN)
			return s.bind(fmt.Sprintf("(map (fn (x) (conj x %s)) [%s %s])", s.scalar(), a.name, b.name), "map-conj", false, a, b)
		}
	case 23, 24:
		// quasiquote splice in first / middle / last position
		if a := s.pick(isSeqN); a != nil {
			t := []string{"((splice-unquote %s) %s)", "(0 (splice-unquote %s) %s)", "(%[2]s (splice-unquote %[1]s))", "[(splice-unquote %s) %s]", "((splice-unquote %[1]s) (splice-unquote %[1]s))"}[r.Intn(5)]
			return s.bind("(quasiquote "+fmt.Sprintf(t, a.name, s.scalar())+")", "quasiquote-splice", false, a)
		}
	case 25:
		// atoms storing pool values: swap!/reset! must not touch the stored value
		if a := s.pick(isCollN); a != nil {
			s.nAtom++
			at := fmt.Sprintf("a%d", s.nAtom)
			if !s.effect(fmt.Sprintf("(def %s (atom %s))", at, a.name), "atom") {
				return false
			}
			var upd string
			switch {
			case isSeqN(a.snap):
				upd = fmt.Sprintf("(swap! %s conj %s)", at, s.scalar())
			case isMapN(a.snap):
				upd = fmt.Sprintf("(swap! %s assoc %s %s)", at, s.key(), s.scalar())
			default:
				upd = fmt.Sprintf("(swap! %s conj %s)", at, s.key())
			}
			a.ext++
			if !s.effect(upd, "swap!") {
				return false
			}
			return s.effect(fmt.Sprintf("(reset! %s (conj @%s %s))", at, at, s.key()), "reset!")
		}
	case 26:
		// closures capturing pool values
		if a := s.pick(isSeqN); a != nil {
			s.nFn++
			f := fmt.Sprintf("f%d", s.nFn)
			if !s.effect(fmt.Sprintf("(def %s (fn (x) (conj %s x)))", f, a.name), "closure") {
				return false
			}
			if !s.bind(fmt.Sprintf("(%s %s)", f, s.scalar()), "closure-call", false, a) {
				return false
			}
			return s.bind(fmt.Sprintf("(%s %s)", f, s.scalar()), "closure-call", false, a)
		}
	case 30:
		// literals that are part of the program itself: a function (or macro) whose body derives from a quoted literal
		// or from its operand form is run several times; every result must stay what it was, i.e. the program's own
		// forms are values like any other
		s.nFn++
		f := fmt.Sprintf("g%d", s.nFn)
		var def string
		switch r.Intn(4) {
		case 0:
			def = fmt.Sprintf("(def %s (fn (x) (conj (quote [1 2 3]) x)))", f)
		case 1:
			def = fmt.Sprintf("(def %s (fn (x) (concat (quote (1 2 3)) [x])))", f)
		case 2:
			def = fmt.Sprintf("(def %s (fn (x) (quasiquote ((splice-unquote (quote [1 2])) (unquote x)))))", f)
		default:
			def = fmt.Sprintf("(do (defmacro %sm (fn (v) (list (quote quote) (conj v 9)))) (def %s (fn (x) (conj (%sm [1 2 3]) x))))", f, f, f)
		}
		if !s.effect(def, "program-literal") {
			return false
		}
		for k := 0; k < 3; k++ {
			if !s.bind(fmt.Sprintf("(%s %s)", f, s.scalar()), "program-literal-call", false) {
				return false
			}
		}
		return true
	case 31:
		// code held as data: a quoted form containing macro calls is bound, evaluated through eval (possibly twice),
		// and must still be the form it was
		code := []string{"(quote (list (cond false 1 true 2) (and 1 2) (or nil 3)))", "(quote (do (-> 1 (+ 2)) (->> [1 2] (map inc))))", "(quote (let (a (or nil 1)) (list a (cond nil 0 :else a))))"}[r.Intn(3)]
		if !s.bind(code, "quoted-code", false) {
			return false
		}
		cv := s.vals[len(s.vals)-1]
		if !s.effect(fmt.Sprintf("(eval %s)", cv.name), "eval-quoted-code") {
			return false
		}
		return s.effect(fmt.Sprintf("(list (eval %s) (eval %s))", cv.name, cv.name), "eval-quoted-code")
	case 37, 38:
		// a catch clause whose variable has the name of an existing binding: the caught value is bound in a scope of the
		// handler's own, the existing binding (global, let-bound, captured) is not touched
		if a := s.pick(isCollN); a != nil {
			switch r.Intn(3) {
			case 0:
				return s.effect(fmt.Sprintf("(try (throw (list :thrown %s)) (catch %s (count %s)))", s.scalar(), a.name, a.name), "catch-symbol-named-like-binding")
			case 1:
				return s.effect(fmt.Sprintf("(try (nth [] 5) (catch %s (str %s)))", a.name, a.name), "catch-symbol-named-like-binding")
			default:
				if !s.bind(fmt.Sprintf("(let (loc %s peek (fn () loc)) (list (try (throw :boom) (catch loc (str loc))) loc (peek)))", a.name), "catch-symbol-named-like-local", false, a) {
					return false
				}
				got := s.vals[len(s.vals)-1]
				if got.snap.K == canon.List && len(got.snap.L) == 3 && (!canon.Equal(got.snap.L[1], a.snap) || !canon.Equal(got.snap.L[2], a.snap)) {
					s.c.Violate(fw.Violation{Key: "binding-overwritten-by-catch", What: fmt.Sprintf("after (try (throw :boom) (catch loc …)) the local loc and the closure over it read %s and %s, the binding was %s", canon.Render(got.snap.L[1]), canon.Render(got.snap.L[2]), canon.Render(a.snap)), Input: strings.Join(s.log, "\n")})
					return false
				}
				return true
			}
		}
	case 35, 36:
		// closures made in successive iterations of a self-recursive tail loop each keep the parameters of their own
		// iteration (a vector that grows from call to call)
		if a := s.pick(isVecN); a != nil {
			fn := fmt.Sprintf("collect%d", len(s.vals))
			form := gen.Pick(r, []string{"(if (< i 3) (%[1]s (+ i 1) (conj v i) (conj acc (fn () (list i v)))) acc)", "(cond (< i 3) (%[1]s (+ i 1) (conj v i) (conj acc (fn () (list i v)))) :else acc)", "(do (if (< i 3) (%[1]s (+ i 1) (conj v i) (conj acc (fn () (list i v)))) acc))"})
			if !s.effect(fmt.Sprintf("(def %s (fn (i v acc) %s))", fn, fmt.Sprintf(form, fn)), "loop-closures-def") {
				return false
			}
			if !s.bind(fmt.Sprintf("(map (fn (f) (f)) (%s 0 %s []))", fn, a.name), "loop-closures", false, a) {
				return false
			}
			got := s.vals[len(s.vals)-1]
			want := make([]*canon.Node, 3)
			cur := append([]*canon.Node(nil), a.snap.L...)
			for i := 0; i < 3; i++ {
				want[i] = canon.Li(canon.In(i), canon.Ve(append([]*canon.Node(nil), cur...)...))
				cur = append(cur, canon.In(i))
			}
			if !canon.Equal(got.snap, canon.Li(want...)) {
				s.c.Violate(fw.Violation{Key: "closure-view-changed:loop", What: fmt.Sprintf("closures collected over three iterations of %s starting from %s returned %s, expected %s", fn, canon.Render(a.snap), canon.Render(got.snap), canon.Render(canon.Li(want...))), Input: strings.Join(s.log, "\n")})
				return false
			}
			return true
		}
	case 33, 34:
		// a value seen through a closure: the closure captured the binding before an inner let of the same scope bound
		// the same name to an extended value; what the closure returns is still the value it captured
		if a := s.pick(isSeqN); a != nil {
			sc := s.scalar()
			inner := fmt.Sprintf("(let (acc (conj acc %s)) (list (peek) acc))", sc)
			var expr string
			switch r.Intn(3) {
			case 0:
				expr = fmt.Sprintf("(let (acc %s peek (fn () acc)) %s)", a.name, inner)
			case 1:
				expr = fmt.Sprintf("((fn (acc) (let (peek (fn () acc)) %s)) %s)", inner, a.name)
			default:
				expr = fmt.Sprintf("(try (throw %s) (catch acc (let (peek (fn () acc)) %s)))", a.name, inner)
			}
			if !s.bind(expr, "closure-view", false, a) {
				return false
			}
			got := s.vals[len(s.vals)-1]
			if got.snap.K == canon.List && len(got.snap.L) == 2 && !canon.Equal(got.snap.L[0], a.snap) {
				s.c.Violate(fw.Violation{Key: "closure-view-changed", What: fmt.Sprintf("%s: the closure returned %s, it captured %s", expr, canon.Render(got.snap.L[0]), canon.Render(a.snap)), Input: strings.Join(s.log, "\n")})
				return false
			}
			return true
		}
	case 27:
		// nesting: a value stored inside another collection
		if a := s.pick(isCollN); a != nil {
			b := s.pick(isCollN)
			return s.bind(fmt.Sprintf("[%s {:in %s} (list %s)]", a.name, b.name, a.name), "nest", false)
		}
	case 29:
		// per-element results must not share storage: a closure keeping its rest-parameter list, mapped over a sequence
		if a := s.pick(func(n *canon.Node) bool { return isSeqN(n) && len(n.L) >= 2 }); a != nil {
			if !s.bind(fmt.Sprintf("(map (fn (& xs) xs) %s)", a.name), "map-rest-closure", false) {
				return false
			}
			got := s.vals[len(s.vals)-1]
			ref, ok := s.eval(fmt.Sprintf("(map list %s)", a.name))
			if ok && !canon.Equal(got.snap, canon.FromGo(ref)) {
				s.c.Violate(fw.Violation{Key: "aliasing-within-result:map", What: fmt.Sprintf("(map (fn (& xs) xs) %s) is %s but (map list %s) is %s: the argument lists of different calls share storage", a.name, canon.Render(got.snap), a.name, canon.Render(canon.FromGo(ref))), Input: strings.Join(s.log, "\n")})
				return false
			}
			return true
		}
	case 28:
		if st := s.pick(isSetN); st != nil {
			return s.bind(fmt.Sprintf("(conj %s %s)", st.name, s.key()), "conj-set", false, st)
		}
	default:
		if m := s.pick(isMapN); m != nil {
			return s.bind(fmt.Sprintf("(conj %s %s %s)", m.name, s.key(), s.scalar()), "conj-map", false, m)
		}
	}
	return true
}

func c02Sequence(c *fw.Ctx, base types.EnvType, r *rand.Rand, id string, steps int) {
	c.Case(id, "(operation history; written out on violation)", func() {
		s := &c02Seq{c: c, r: r, env: hx.Sub(base)}
		s.seed()
		for i := 0; i < steps; i++ {
			if !s.step() {
				return
			}
		}
		c.Count("sequences", 1)
		c.Distinct("shapes", strings.Join(s.log, "\n"))
		if c.Shard == 0 && strings.HasSuffix(id, "-0") {
			c.Sample(s.log[:min(len(s.log), 14)])
		}
	})
}

// c02Concurrent: threads derive from the same parents simultaneously (race detector + snapshots).
func c02Concurrent(c *fw.Ctx, base types.EnvType, r *rand.Rand, id string, threads, rounds int) {
	c.Case(id, "(concurrent derivation from shared parents)", func() {
		env := hx.Sub(base)
		parents := []string{"[1 2 3]", "(conj [1 2] 3)", "(quote (1 2 3))", "(vec (range 0 5))", "(apply list (range 0 6))", "{:k0 1 :k1 [1 2]}", "#{:k0 \"s\"}",
			"(subvec [0 1 2 3 4 5] 1 4)", "(rest [0 1 2 3])", "(concat [1 2] [3])"}
		snaps := make([]*canon.Node, len(parents))
		for i, p := range parents {
			o := hx.EvalText(context.Background(), fmt.Sprintf("(def p%d %s)", i, p), env)
			if o.Err != nil || o.Panicked {
				return
			}
			snaps[i] = canon.FromGo(o.Val)
		}
		var wg sync.WaitGroup
		start := make(chan struct{})
		seeds := make([]int64, threads)
		for t := range seeds {
			seeds[t] = r.Int63()
		}
		bad := make(chan string, threads*rounds)
		for t := 0; t < threads; t++ {
			wg.Add(1)
			go func(t int) {
				defer wg.Done()
				tr := rand.New(rand.NewSource(seeds[t]))
				<-start
				for k := 0; k < rounds; k++ {
					pi := tr.Intn(len(parents))
					tag := 1000*t + k
					var src string
					want := canon.Clone(snaps[pi])
					switch snaps[pi].K {
					case canon.Vec:
						switch tr.Intn(3) {
						case 0:
							src = fmt.Sprintf("(conj p%d %d)", pi, tag)
							want.L = append(want.L, canon.In(tag))
						case 1:
							src = fmt.Sprintf("(concat p%d [%d])", pi, tag)
							want = canon.Li(append(append([]*canon.Node{}, want.L...), canon.In(tag))...)
						default:
							src = fmt.Sprintf("(quasiquote ((splice-unquote p%d) %d))", pi, tag)
							want = canon.Li(append(append([]*canon.Node{}, want.L...), canon.In(tag))...)
						}
					case canon.List:
						if tr.Intn(2) == 0 {
							src = fmt.Sprintf("(concat p%d [%d])", pi, tag)
							want = canon.Li(append(append([]*canon.Node{}, want.L...), canon.In(tag))...)
						} else {
							src = fmt.Sprintf("(conj p%d %d)", pi, tag)
							want = canon.Li(append([]*canon.Node{canon.In(tag)}, want.L...)...)
						}
					case canon.Map:
						src = fmt.Sprintf("(assoc p%d :t %d)", pi, tag)
						want.M[canon.Marker+"t"] = canon.In(tag)
					default:
						src = fmt.Sprintf("(conj p%d :t%d)", pi, tag)
						want.Mem[canon.Marker+fmt.Sprintf("t%d", tag)] = true
					}
					o := hx.EvalText(context.Background(), src, env)
					if o.Err != nil || o.Panicked {
						continue
					}
					if got := canon.FromGo(o.Val); !canon.Equal(got, want) {
						bad <- fmt.Sprintf("thread %d: %s returned %s, expected %s (another thread's element leaked in)", t, src, canon.Render(got), canon.Render(want))
					}
				}
			}(t)
		}
		close(start)
		wg.Wait()
		close(bad)
		c.Count("concurrent_derivations", threads*rounds)
		for m := range bad {
			c.Violate(fw.Violation{Key: "concurrent-derivation-interference", What: m, Input: strings.Join(parents, "\n")})
			return
		}
		for i := range parents {
			cur, _ := env.Get(types.Symbol{Val: fmt.Sprintf("p%d", i)})
			if !canon.Equal(canon.FromGo(cur), snaps[i]) {
				c.Violate(fw.Violation{Key: "concurrent-parent-mutated", What: fmt.Sprintf("parent p%d = %s changed to %s", i, canon.Render(snaps[i]), canon.Render(canon.FromGo(cur)))})
				return
			}
		}
	})
}

func runC02(c *fw.Ctx) {
	base := hx.NewStdEnv()
	r := c.Rand("seq")
	steps := c.Pick(40, 200)
	for i := 0; i < c.PerShard(c.Pick(2400, 24000)); i++ {
		c02Sequence(c, base, r, fmt.Sprintf("seq-%d", i), steps)
	}
	r2 := c.Rand("conc")
	for i := 0; i < c.PerShard(c.Pick(160, 3000)); i++ {
		c02Concurrent(c, base, r2, fmt.Sprintf("conc-%d", i), 8, 50)
	}
}

func init() {
	fw.Register(&fw.Property{
		ID:     "C02",
		Race:   true,
		Run:    runC02,
		Rule:   "seeded operation histories (def vK (op vI vJ …)) over conj concat cons assoc dissoc subvec rest vec seq take/take-last/drop/drop-last merge rename-keys with-meta assoc-in update update-in apply map, quasiquote splices (first/middle/last/vector/double), atoms storing pool values (swap!/reset!), closures capturing pool values, nesting; operands biased to parents already extended once, views and values whose backing array has spare capacity (measured by cap>len); after every step every earlier name is re-read through env.Get and compared with the canonical snapshot taken when it was bound; plus 8 threads deriving from 10 shared parents for 50 rounds under the race detector, each result checked against its own expected value; distinct = distinct histories; values seen through a closure that captured a binding which a tail-position let of the same scope (let, parameter, catch variable) then re-binds to an extended value",
		Assume: []string{"reference objects (atoms, futures) are excluded by the statement", "race detector reports only the interleavings that occurred"},
		Finish: func(m *fw.Merged) {
			m.Floor("steps", 5000)
			m.Floor("parents_extended_twice_or_more", 1000)
			m.Floor("extensions_of_value_with_spare_capacity", 500)
			m.Floor("extensions_of_views", 200)
			m.Floor("concurrent_derivations", 1000)
			m.Extra["op_histogram"] = m.CountsWithPrefix("op.")
		},
	})
}
