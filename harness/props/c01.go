package props

import (
	"fmt"

	"verifharness/canon"
	"verifharness/fw"
	"verifharness/gen"
)

// C01: core evaluation matches the language definition (results, errors, effect order, bindings).

type c01Enum struct {
	memoE map[int][]*canon.Node
	memoS map[[2]int][][]*canon.Node
}

var c01Consts = []*canon.Node{canon.N(), canon.Bo(false), canon.In(0), canon.In(1), canon.St("s")}
var c01Syms = []string{"a", "b", "f", "+", "list", "first"}
var c01Params = [][]string{{}, {"a"}, {"a", "b"}, {"a", "&", "b"}, {"&", "a"}}

// exprs returns every expression with exactly n nodes.
func (en *c01Enum) exprs(n int) []*canon.Node {
	if n <= 0 {
		return nil
	}
	if v, ok := en.memoE[n]; ok {
		return v
	}
	var out []*canon.Node
	s := canon.Sy
	if n == 1 {
		out = append(out, c01Consts...)
		for _, x := range c01Syms {
			out = append(out, s(x))
		}
		out = append(out, canon.Li()) // ()
	}
	// special forms: 1 for the list + 1 for the head symbol
	rem := n - 2
	if rem >= 0 {
		// (do e*)
		for _, sq := range en.seqs(rem, -1) {
			out = append(out, canon.Li(append([]*canon.Node{s("do")}, sq...)...))
		}
	}
	if rem >= 1 {
		// (quote e), (trace! e)
		for _, e := range en.exprs(rem) {
			out = append(out, canon.Li(s("quote"), e), canon.Li(s("trace!"), e))
		}
		// (if e e), (if e e e)
		for _, sq := range en.seqs(rem, 2) {
			out = append(out, canon.Li(append([]*canon.Node{s("if")}, sq...)...))
		}
		for _, sq := range en.seqs(rem, 3) {
			out = append(out, canon.Li(append([]*canon.Node{s("if")}, sq...)...))
		}
		// (def x e)
		for _, x := range []string{"a", "b", "f"} {
			for _, e := range en.exprs(rem - 1) {
				out = append(out, canon.Li(s("def"), s(x), e))
			}
		}
		// (let (x e) e*) and (let (x e y e) e*)
		for _, x := range []string{"a", "f"} {
			// binding list: 1 + 1(x) + |e|
			for be := 1; be <= rem-2; be++ {
				for _, bv := range en.exprs(be) {
					for _, body := range en.seqs(rem-2-be, -1) {
						out = append(out, canon.Li(append([]*canon.Node{s("let"), canon.Li(s(x), bv)}, body...)...))
					}
				}
			}
		}
		for be1 := 1; be1 <= rem-5; be1++ {
			for be2 := 1; be2 <= rem-4-be1; be2++ {
				for _, b1 := range en.exprs(be1) {
					for _, b2 := range en.exprs(be2) {
						for _, body := range en.seqs(rem-3-be1-be2, -1) {
							out = append(out, canon.Li(append([]*canon.Node{s("let"), canon.Ve(s("a"), b1, s("b"), b2)}, body...)...))
						}
					}
				}
			}
		}
		// (fn params e*)
		for _, ps := range c01Params {
			pl := make([]*canon.Node, len(ps))
			for i, p := range ps {
				pl[i] = s(p)
			}
			for _, body := range en.seqs(rem-1-len(ps), -1) {
				out = append(out, canon.Li(append([]*canon.Node{s("fn"), canon.Li(pl...)}, body...)...))
			}
		}
	}
	// applications (e e*): list node + head expr + args; heads that are special-form names are not generated
	for h := 1; h <= n-1; h++ {
		for _, head := range en.exprs(h) {
			for _, args := range en.seqs(n-1-h, -1) {
				out = append(out, canon.Li(append([]*canon.Node{head}, args...)...))
			}
		}
	}
	en.memoE[n] = out
	return out
}

// seqs returns every sequence of expressions with total size n; k<0: any length, else exactly k elements.
func (en *c01Enum) seqs(n, k int) [][]*canon.Node {
	if n < 0 {
		return nil
	}
	key := [2]int{n, k}
	if v, ok := en.memoS[key]; ok {
		return v
	}
	var out [][]*canon.Node
	if n == 0 {
		if k <= 0 {
			out = [][]*canon.Node{{}}
		}
		en.memoS[key] = out
		return out
	}
	if k == 0 {
		en.memoS[key] = nil
		return nil
	}
	for first := 1; first <= n; first++ {
		nk := k
		if k > 0 {
			nk = k - 1
		}
		rests := en.seqs(n-first, nk)
		if len(rests) == 0 {
			continue
		}
		for _, e := range en.exprs(first) {
			for _, r := range rests {
				out = append(out, append([]*canon.Node{e}, r...))
			}
		}
	}
	en.memoS[key] = out
	return out
}

func runC01(c *fw.Ctx) {
	b := newDiffBase()
	// (a) exhaustive small programs
	en := &c01Enum{memoE: map[int][]*canon.Node{}, memoS: map[[2]int][][]*canon.Node{}}
	maxN := c.Pick(5, 6)
	idx := 0
	for n := 1; n <= maxN; n++ {
		for _, e := range en.exprs(n) {
			if c.Mine(idx) {
				diffProgram(c, b, fmt.Sprintf("exh-%d", idx), []*canon.Node{e}, []string{"a", "b", "f"}, "")
				c.Count("exhaustive_programs", 1)
			}
			idx++
		}
	}
	if !c.Quick() {
		// size 7: seeded sub-sample (1 in 8)
		rg := c.RandGlobal("n7")
		for _, e := range en.exprs(7) {
			if rg.Intn(8) == 0 {
				if c.Mine(idx) {
					diffProgram(c, b, fmt.Sprintf("exh7-%d", idx), []*canon.Node{e}, []string{"a", "b", "f"}, "")
					c.Count("sampled_size7_programs", 1)
				}
			}
			idx++
		}
	}
	// (b) typed random programs, 10% with an injected fault
	r := c.Rand("typed")
	pg := gen.NewPG(r, gen.ProgOpts{Faults: 10, MaxDepth: 7})
	for i := 0; i < c.PerShard(c.Pick(200000, 4000000)); i++ {
		forms := pg.Program()
		if i < 2 {
			c.Sample(progText(forms))
		}
		diffProgram(c, b, fmt.Sprintf("typed-%d", i), forms, pg.GlobalNames(), "")
	}
	for k, v := range pg.Stats {
		c.Count("feature."+k, v)
	}
}

func init() {
	fw.Register(&fw.Property{
		ID:     "C01",
		Run:    runC01,
		Rule:   "(a) every program with at most N AST nodes (N=5 quick, 6 + a 1/8 sample of 7 thorough) over e ::= c | x | (if e e [e]) | (do e*) | (let (x e [x e]) e*) | (def x e) | (fn params e*) | (e e*) | (quote e) | (trace! e), c in {nil false 0 1 \"s\" ()}, x in {a b f + list first}; (b) seeded typed programs (closures, shadowing, recursion, mutual recursion, & rest, inner defs, escaping closures, 10% injected faults); each is run by the real EVAL in a fresh scope and by the harness's reference interpreter; result, error class (and thrown value / unbound name), ordered trace! events and final bindings must agree; distinct = distinct program skeletons (constants erased) whose trace is non-empty; shapes added after seeded misses: shadowed builtin names, an operand re-defining the callee, rest parameters with too few positional arguments, closures capturing a name that a tail-position let of the same scope re-binds, a name bound twice in one let with a closure in between, forward references inside let, unbound symbols in statement position of do/let/fn bodies",
		Assume: []string{"refmal is the reading of the mal guide + README + statement; programs on which it reports an ill-formed special form or exhausts its step budget are discarded and counted", "error message text is not compared"},
		Finish: func(m *fw.Merged) {
			m.Floor("programs", 10000)
			m.Floor("outcome.value", 1000)
			m.Floor("outcome.unbound", 100)
			m.Floor("outcome.arity", 100)
			m.Floor("outcome.not-callable", 100)
			m.Floor("outcome.builtin", 100)
			m.Extra["outcome_histogram"] = m.CountsWithPrefix("outcome.")
			m.Extra["features"] = m.CountsWithPrefix("feature.")
			m.Extra["discarded"] = m.CountsWithPrefix("discarded.")
			m.Extra["exhaustive"] = true
		},
	})
}
