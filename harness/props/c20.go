package props

import (
	"context"
	"errors"
	"fmt"
	"runtime"
	"strings"
	"sync"

	"github.com/jig/lisp"
	"github.com/jig/lisp/env"
	"github.com/jig/lisp/lib/call"
	"github.com/jig/lisp/lib/concurrent"
	"github.com/jig/lisp/types"

	"verifharness/binder_nodot"
	"verifharness/canon"
	"verifharness/dot.pkg/binderdot"
	"verifharness/fw"
	"verifharness/hx"
)

// C20: reflectively bound Go functions are called only within their declared contract.

type c20Sig struct {
	ID        string
	Fn        any
	Ctx       bool
	Fixed     string
	Variadic  string
	Res       string
	Pkg       string
	ErrS      error
	setMode   func(int)
	lastPanic func() any
}

type c20Entry struct {
	id   string
	ctx  context.Context
	args []any
}

type c20Monitor struct {
	mu      sync.Mutex
	entries []c20Entry
}

func (m *c20Monitor) rec(id string, ctx context.Context, args []any) {
	m.mu.Lock()
	m.entries = append(m.entries, c20Entry{id, ctx, args})
	m.mu.Unlock()
}

func (m *c20Monitor) take() []c20Entry {
	m.mu.Lock()
	defer m.mu.Unlock()
	e := m.entries
	m.entries = nil
	return e
}

func c20Sigs(mon *c20Monitor) []c20Sig {
	binder_nodot.Rec = mon.rec
	binderdot.Rec = mon.rec
	var out []c20Sig
	for _, s := range binder_nodot.Sigs {
		out = append(out, c20Sig{s.ID, s.Fn, s.Ctx, s.Fixed, s.Variadic, s.Res, "nodot", binder_nodot.ErrS, func(m int) { binder_nodot.Mode = m }, func() any { return binder_nodot.LastPanic }})
	}
	for _, s := range binderdot.Sigs {
		out = append(out, c20Sig{s.ID, s.Fn, s.Ctx, s.Fixed, s.Variadic, s.Res, "dot", binderdot.ErrS, func(m int) { binderdot.Mode = m }, func() any { return binderdot.LastPanic }})
	}
	return out
}

type c20Arg struct {
	kind string
	val  types.MalType
}

// the atom argument is made by the interpreter itself ((atom 1)), not by a struct literal, so that the harness
// does not depend on the atom's fields
var c20Atom = func() *concurrent.Atom {
	o := hx.EvalText(context.Background(), "(atom 1)", hx.NewStdEnv())
	a, _ := o.Val.(*concurrent.Atom)
	if a == nil {
		panic("harness: (atom 1) did not give an atom")
	}
	return a
}()

func c20Args() []c20Arg {
	return []c20Arg{
		{"nil", nil}, {"int", 7}, {"string", "str"}, {"keyword", canon.Marker + "kw"},
		{"list", types.List{Val: []types.MalType{1, 2}}}, {"vector", types.Vector{Val: []types.MalType{3}}},
		{"map", types.HashMap{Val: map[string]types.MalType{"a": 1}}}, {"atom", c20Atom},
	}
}

// assignable: 1 yes, 0 no, -1 unspecified (nil to a pointer parameter)
func c20Assignable(param byte, a c20Arg) int {
	switch param {
	case 'M':
		return 1
	case 'I':
		if a.kind == "int" {
			return 1
		}
		return 0
	case 'S':
		if a.kind == "string" || a.kind == "keyword" {
			return 1
		}
		return 0
	case 'A':
		if a.kind == "atom" {
			return 1
		}
		if a.kind == "nil" {
			return -1
		}
		return 0
	}
	return 0
}

func c20Good(param byte, args []c20Arg) c20Arg {
	for _, a := range args {
		if c20Assignable(param, a) == 1 && a.kind != "nil" {
			return a
		}
	}
	return args[0]
}

type c20CtxKey struct{}

func c20SameArg(got any, want types.MalType) bool {
	if want == nil {
		return got == nil
	}
	switch w := want.(type) {
	case *concurrent.Atom:
		g, ok := got.(*concurrent.Atom)
		return ok && g == w
	case int:
		g, ok := got.(int)
		return ok && g == w
	case string:
		g, ok := got.(string)
		return ok && g == w
	}
	return canon.Equal(canon.FromGo(got), canon.FromGo(want))
}

func runC20(c *fw.Ctx) {
	mon := &c20Monitor{}
	sigs := c20Sigs(mon)
	pool := c20Args()
	token := new(int)
	evalCtx := context.WithValue(context.Background(), c20CtxKey{}, token)
	idx := 0
	if c.Shard == 0 {
		c20OddNames(c)
		c20Identity(c)
		c20Concurrent(c)
	}
	for _, sg := range sigs {
		sg := sg
		fixedN := len(sg.Fixed)
		// declared bound variants
		type bnd struct {
			decl     []int
			min, max int
		}
		var bounds []bnd
		if sg.Variadic == "" {
			bounds = []bnd{{nil, fixedN, fixedN}}
		} else {
			bounds = append(bounds, bnd{nil, 0, 1000})
			for mn := 0; mn <= fixedN+3; mn++ {
				bounds = append(bounds, bnd{[]int{mn}, mn, 1000})
				for mx := mn; mx <= fixedN+3; mx++ {
					bounds = append(bounds, bnd{[]int{mn, mx}, mn, mx})
				}
			}
		}
		for _, b := range bounds {
			for _, override := range []bool{false, true} {
				if !c.Mine(idx) {
					idx++
					continue
				}
				idx++
				b, override := b, override
				cfg := fmt.Sprintf("%s pkg=%s bounds=%v override=%v", sg.ID, sg.Pkg, b.decl, override)
				c.Case(fmt.Sprintf("cfg-%d", idx-1), cfg, func() {
					c20Config(c, mon, sg, b.decl, b.min, b.max, override, pool, evalCtx, token, cfg)
				})
				c.Distinct("shapes", cfg)
			}
		}
	}
}

// c20OddNames: registration name = lower-cased Go name with every '_' replaced by '-' (also leading, trailing, doubled).
func c20OddNames(c *fw.Ctx) {
	type odd struct {
		id string
		fn any
		pk string
	}
	var l []odd
	for _, s := range binder_nodot.OddNames {
		l = append(l, odd{s.ID, s.Fn, "nodot"})
	}
	for _, s := range binderdot.OddNames {
		l = append(l, odd{s.ID, s.Fn, "dot"})
	}
	for i, o := range l {
		o := o
		c.Case(fmt.Sprintf("oddname-%d", i), "call.Call of "+o.id+" (pkg "+o.pk+")", func() {
			e := env.NewEnv()
			want := strings.ReplaceAll(strings.ToLower(o.id), "_", "-")
			p, site, msg, st := fw.Guard(func() { call.Call(e, o.fn) })
			c.Count("registrations", 1)
			c.Count("odd_name_registrations", 1)
			if p {
				c.Violate(fw.Violation{Key: "registration-panic:odd-name", What: "registration panicked at " + site + ": " + msg, Detail: st})
				return
			}
			if _, err := e.Get(types.Symbol{Val: want}); err != nil {
				var have []string
				for _, r := range e.Symbols(nil, "") {
					if string(r) != "_PACKAGES_" {
						have = append(have, string(r))
					}
				}
				c.Violate(fw.Violation{Key: "registration-name", What: fmt.Sprintf("Go function %s must be registered as %q; the environment has %v", o.id, want, have)})
				return
			}
			res, err := lisp.EVAL(context.Background(), types.List{Val: []types.MalType{types.Symbol{Val: want}, 5}}, e)
			if err != nil || res != 5 {
				c.Violate(fw.Violation{Key: "registration-name", What: fmt.Sprintf("calling %s gives %v / %v", want, res, err)})
			}
		})
	}
}

func c20Config(c *fw.Ctx, mon *c20Monitor, sg c20Sig, decl []int, bmin, bmax int, override bool, pool []c20Arg, evalCtx context.Context, token *int, cfg string) {
	e := env.NewEnv()
	wantName := strings.ReplaceAll(strings.ToLower(sg.ID), "_", "-")
	if override {
		wantName = "ovr-" + strings.ToLower(sg.ID)
		// override names are the embedding program's choice (operators such as %): names that contain what a format
		// string would read as a verb must come through registration, calls, count errors and panic wrapping unharmed
		// (seeded C20-m14)
		if h := len(sg.ID) + len(decl)*7 + bmin*3 + bmax; h%3 == 1 {
			wantName = []string{"%", "%s", "rem%", "a%wb", "100%d", "%!v(", "%%"}[h%7] + wantName
			c.Count("override_names_containing_a_percent_sign", 1)
		}
	}
	p, site, msg, st := fw.Guard(func() {
		if override {
			call.CallOverrideFN(e, wantName, sg.Fn, decl...)
		} else {
			call.Call(e, sg.Fn, decl...)
		}
	})
	c.Count("registrations", 1)
	if p {
		c.Violate(fw.Violation{Key: fmt.Sprintf("registration-panic:pkg-%s:override-%v", sg.Pkg, override), What: "registration of a legal declaration panicked at " + site + ": " + msg, Detail: st})
		return
	}
	if _, err := e.Get(types.Symbol{Val: wantName}); err != nil {
		c.Violate(fw.Violation{Key: "registration-name", What: "function not registered under " + wantName})
		return
	}
	fixedN := len(sg.Fixed)
	maxLen := fixedN + 3 + 2
	if sg.Variadic == "" {
		maxLen = fixedN + 2
	}
	if len(decl) == 2 {
		maxLen = decl[1] + 2
	}
	paramAt := func(i int) byte {
		if i < fixedN {
			return sg.Fixed[i]
		}
		if sg.Variadic != "" {
			return sg.Variadic[0]
		}
		return 'M'
	}
	one := func(args []c20Arg, mode int) {
		sg.setMode(mode)
		defer sg.setMode(0)
		n := len(args)
		// expectation
		assign := 1
		for i, a := range args {
			switch c20Assignable(paramAt(i), a) {
			case 0:
				assign = 0
			case -1:
				if assign == 1 {
					assign = -1
				}
			}
		}
		countOK := n >= bmin && n <= bmax && n >= fixedN && (sg.Variadic != "" || n == fixedN)
		wantEnter := countOK && assign == 1
		unspecified := countOK && assign == -1
		form := []types.MalType{types.Symbol{Val: wantName}}
		var kinds []string
		for _, a := range args {
			v := a.val
			switch v.(type) {
			case types.List:
				v = types.List{Val: []types.MalType{types.Symbol{Val: "quote"}, v}}
			}
			form = append(form, v)
			kinds = append(kinds, a.kind)
		}
		input := fmt.Sprintf("%s args=(%s) mode=%d", cfg, strings.Join(kinds, " "), mode)
		mon.take()
		var res types.MalType
		var err error
		pp, psite, pmsg, pst := fw.Guard(func() { res, err = lisp.EVAL(evalCtx, types.List{Val: form}, e) })
		entries := mon.take()
		c.Count("calls", 1)
		sigClass := fmt.Sprintf("ctx-%v:var-%s:decl-%d", sg.Ctx, orDash(sg.Variadic), len(decl))
		if pp {
			c.Violate(fw.Violation{Key: "panic@" + psite, What: "call panicked into the host: " + pmsg, Input: input, Detail: pst})
			return
		}
		if unspecified {
			c.Count("unspecified_nil_to_pointer", 1)
			return
		}
		if wantEnter {
			c.Count("expected_entered", 1)
			if len(entries) != 1 {
				c.Violate(fw.Violation{Key: "not-entered:" + sigClass, What: fmt.Sprintf("count within bounds [%d,%d] and arguments assignable, but the function was entered %d times (err=%v)", bmin, bmax, len(entries), err), Input: input})
				return
			}
			en := entries[0]
			if len(en.args) != n {
				c.Violate(fw.Violation{Key: "args-count:" + sigClass, What: fmt.Sprintf("function saw %d arguments, %d were given", len(en.args), n), Input: input})
				return
			}
			for i := range args {
				if !c20SameArg(en.args[i], args[i].val) {
					c.Violate(fw.Violation{Key: "args-value:" + sigClass, What: fmt.Sprintf("argument %d arrived as %#v, given %#v", i, en.args[i], args[i].val), Input: input})
					return
				}
			}
			if sg.Ctx {
				if en.ctx == nil || en.ctx.Value(c20CtxKey{}) != any(token) {
					c.Violate(fw.Violation{Key: "context-not-injected", What: "the function did not receive the evaluation's context", Input: input})
					return
				}
			}
			// result mapping
			switch mode {
			case 0:
				if err != nil {
					c.Violate(fw.Violation{Key: "result:error-on-success:" + sg.Res, What: "unexpected error: " + err.Error(), Input: input})
					return
				}
				switch sg.Res {
				case "r0", "r1":
					if res != nil {
						c.Violate(fw.Violation{Key: "result:nonnil:" + sg.Res, What: fmt.Sprintf("expected nil, got %#v", res), Input: input})
					}
				case "r2":
					var want types.MalType = 42
					if n > 0 {
						want = args[0].val
					}
					if !c20SameArg(res, want) {
						c.Violate(fw.Violation{Key: "result:value:r2", What: fmt.Sprintf("expected %#v, got %#v", want, res), Input: input})
					}
				case "r2i":
					if res != n+100 {
						c.Violate(fw.Violation{Key: "result:value:r2i", What: fmt.Sprintf("expected %d, got %#v", n+100, res), Input: input})
					}
				}
				c.Count("result_mapping_cases", 1)
			case 1:
				if sg.Res == "r0" {
					if err != nil || res != nil {
						c.Violate(fw.Violation{Key: "result:r0", What: fmt.Sprintf("expected nil/nil, got %#v / %v", res, err), Input: input})
					}
					return
				}
				if err == nil || !errors.Is(err, sg.ErrS) {
					c.Violate(fw.Violation{Key: "result:error-lost:" + sg.Res, What: fmt.Sprintf("returned Go error not delivered / not reachable with errors.Is: res=%#v err=%v", res, err), Input: input})
					return
				}
				c20Catchable(c, e, evalCtx, form, input)
				c.Count("error_result_cases", 1)
			case 2:
				if err == nil || !errors.Is(err, sg.ErrS) {
					c.Violate(fw.Violation{Key: "panic-error-not-wrapped", What: fmt.Sprintf("panic(err) inside the function: err=%v, errors.Is fails", err), Input: input})
					return
				}
				c20Catchable(c, e, evalCtx, form, input)
				c.Count("panic_error_cases", 1)
			case 4, 5, 6, 7, 8:
				kind := map[int]string{4: "index-out-of-range", 5: "failed-type-assertion", 6: "nil-map-write", 7: "nil-dereference", 8: "divide-by-zero"}[mode]
				var re runtime.Error
				orig, _ := sg.lastPanic().(error)
				if err == nil || !errors.As(err, &re) || orig == nil || !errors.Is(err, orig) {
					c.Violate(fw.Violation{Key: "panic-runtime-error-not-wrapped:" + kind, What: fmt.Sprintf("a Go runtime panic (%s) inside the function: err=%v; errors.As(runtime.Error) / errors.Is(err, the value recover() saw) fails: the original is no longer wrapped", kind, err), Input: input})
					return
				}
				c20Catchable(c, e, evalCtx, form, input)
				c.Count("panic_runtime_cases", 1)
				c.Count("panic_runtime."+kind, 1)
			case 9:
				orig, _ := sg.lastPanic().(error)
				if err == nil || orig == nil || !errors.Is(err, orig) {
					c.Violate(fw.Violation{Key: "panic-error-not-wrapped:custom-type", What: fmt.Sprintf("panic(&CustomErr{}) inside the function: err=%v; errors.Is(err, that value) fails", err), Input: input})
					return
				}
				c20Catchable(c, e, evalCtx, form, input)
				c.Count("panic_custom_error_cases", 1)
			case 3:
				ev, ok := err.(interface{ ErrorValue() types.MalType })
				if err == nil || !ok || ev.ErrorValue() != "boom-value" {
					c.Violate(fw.Violation{Key: "panic-value-lost", What: fmt.Sprintf("panic(\"boom-value\") inside the function: err=%v", err), Input: input})
					return
				}
				c20Catchable(c, e, evalCtx, form, input)
				c.Count("panic_value_cases", 1)
			}
			return
		}
		c.Count("expected_not_entered", 1)
		if len(entries) != 0 {
			why := "an argument not assignable to its parameter"
			if !countOK {
				why = fmt.Sprintf("argument count %d outside bounds [%d,%d]", n, bmin, bmax)
			}
			c.Violate(fw.Violation{Key: "entered-outside-contract:" + sigClass, What: "the function was entered although " + why, Input: input})
			return
		}
		if err == nil {
			c.Violate(fw.Violation{Key: "no-error-outside-contract:" + sigClass, What: fmt.Sprintf("call outside the contract returned %#v without error", res), Input: input})
			return
		}
		if mode == 0 && c.Count2("catch_probes")%16 == 0 {
			c20Catchable(c, e, evalCtx, form, input)
		}
	}
	for n := 0; n <= maxLen; n++ {
		good := make([]c20Arg, n)
		for i := range good {
			good[i] = c20Good(paramAt(i), pool)
		}
		for mode := 0; mode <= 9; mode++ {
			one(good, mode)
		}
		for i := 0; i < n; i++ {
			for _, a := range pool {
				t := append([]c20Arg(nil), good...)
				t[i] = a
				one(t, 0)
			}
		}
		// the bound function called as a Go value (as map, apply, swap! or an embedding program call it) under a
		// context that has already ended: the contract is the same — entered iff count and types fit, otherwise an
		// error about the count or type (whether to go on after cancellation is the caller's decision, C07)
		if fv, gerr := e.Get(types.Symbol{Val: wantName}); gerr == nil {
			if f, ok := fv.(types.Func); ok {
				dead, cancelDead := context.WithCancel(evalCtx)
				cancelDead()
				vals := make([]types.MalType, n)
				for i, a := range good {
					vals[i] = a.val
				}
				countOK := n >= bmin && n <= bmax && n >= fixedN && (sg.Variadic != "" || n == fixedN)
				mon.take()
				var derr error
				pp, psite, pmsg, pst := fw.Guard(func() { _, derr = f.Fn(dead, vals) })
				entries := mon.take()
				c.Count("direct_calls_under_ended_context", 1)
				input := fmt.Sprintf("%s direct Fn call with %d assignable arguments under a cancelled context", cfg, n)
				switch {
				case pp:
					c.Violate(fw.Violation{Key: "panic@" + psite, What: "direct call panicked: " + pmsg, Input: input, Detail: pst})
					return
				case countOK && len(entries) != 1:
					c.Violate(fw.Violation{Key: "not-entered-inside-contract:ended-context", What: fmt.Sprintf("count and types fit but the function was entered %d time(s) (err %v)", len(entries), derr), Input: input})
					return
				case !countOK && (len(entries) != 0 || derr == nil || hx.Classify(derr) == hx.ETimeout):
					c.Violate(fw.Violation{Key: "outside-contract:ended-context", What: fmt.Sprintf("argument count %d outside bounds [%d,%d]: entered %d time(s), error %v (an error about the count is demanded)", n, bmin, bmax, len(entries), derr), Input: input})
					return
				}
			}
		}
	}
}

func orDash(s string) string {
	if s == "" {
		return "-"
	}
	return s
}

// c20Catchable: the same failing call inside (try … (catch e :caught)) must yield :caught.
func c20Catchable(c *fw.Ctx, e types.EnvType, ctx context.Context, form []types.MalType, input string) {
	try := types.List{Val: []types.MalType{types.Symbol{Val: "try"}, types.List{Val: form},
		types.List{Val: []types.MalType{types.Symbol{Val: "catch"}, types.Symbol{Val: "e"}, canon.Marker + "caught"}}}}
	var res types.MalType
	var err error
	p, site, msg, _ := fw.Guard(func() { res, err = lisp.EVAL(ctx, try, e) })
	c.Count("catchable_checks", 1)
	if p {
		c.Violate(fw.Violation{Key: "panic@" + site, What: "try/catch around the call panicked: " + msg, Input: input})
		return
	}
	if err != nil || res != canon.Marker+"caught" {
		c.Violate(fw.Violation{Key: "not-catchable", What: fmt.Sprintf("the error is not catchable by try/catch: res=%#v err=%v", res, err), Input: input})
	}
}

func init() {
	fw.Register(&fw.Property{
		ID:     "C20",
		Run:    runC20,
		Rule:   "exhaustive table: 192 Go functions per package (context yes/no x fixed parameters {none, M, I, S, *Atom, MM, IS, AM} x variadic {none, ...MalType, ...int} x results {none, error, (MalType,error), (int,error)}) in two packages (import path with and without a dot) x declared bounds {none, (min), (min,max)} with 0<=min<=max<=fixed+3 x entry points Call and CallOverrideFN; for every argument count 0..max+2: the all-assignable tuple in 10 behaviours (return value, return error, panic(sentinel error), panic(value), five kinds of Go runtime panic: index out of range, failed type assertion, nil-map write, nil dereference, integer divide by zero, and panic(error of a custom type); for the last six the value recover() sees inside the function is recorded and must be reachable with errors.Is) and every single-position substitution by each of 8 argument kinds (nil, int, string, keyword, list, vector, map, atom); entry monitors record whether and with what the function was entered; results, errors (errors.Is, ErrorValue), catchability through try/catch, context injection and the registered name are compared with the contract; distinct = distinct (signature, package, bounds, entry point) configurations; function identity: closures of one literal and method values of one method (with/without context, variadic, declared bounds) registered as the same lisp name in three environments, re-registered in one, registered in reverse order: every call must enter exactly the value registered there",
		Assume: []string{"declared bounds count lisp arguments (the context parameter is not an argument)", "nil given to a pointer parameter is left unspecified", "declarations the binder rejects by design (bounds on a non-variadic function, more than two results) are not generated"},
		Level:  "exploration",
		Finish: func(m *fw.Merged) {
			m.Floor("registrations", 1000)
			m.Floor("expected_entered", 10000)
			m.Floor("expected_not_entered", 10000)
			m.Floor("panic_error_cases", 100)
			m.Floor("panic_value_cases", 100)
			m.Extra["exhaustive"] = true
		},
	})
}
