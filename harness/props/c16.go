package props

import (
	"fmt"
	"math/rand"
	"strings"
	"sync"

	"verifharness/canon"

	"github.com/jig/lisp"
	"github.com/jig/lisp/repl"
	"github.com/jig/lisp/types"

	"verifharness/fw"
	"verifharness/gen"
	"verifharness/hx"
)

// C16: incomplete input is told apart from malformed input.

type c16Tok struct {
	text string
	kind byte // 'o' open, 'c' close, 'a' atom (non-string), 's' string/keyword atom, 'y' symbol atom, 'm' macro(1), 'M' macro(2: ^), ';' comment
}

var c16Closer = map[string]string{"(": ")", "[": "]", "{": "}", "#{": "}", "«": "»"}

type c16Frame struct {
	open    string
	count   int
	pending []int // operands still needed by pending reader macros (innermost last)
	bad     bool  // map key / set member kind violated, or constructor head wrong
}

// addForm adds one complete form to the frame; isStr: the form is a string/keyword atom; isSym: symbol atom
func (f *c16Frame) addForm(isStr, isSym bool) {
	if n := len(f.pending); n > 0 {
		f.pending[n-1]--
		if f.pending[n-1] == 0 {
			f.pending = f.pending[:n-1]
			f.addForm(false, false) // the macro form itself is a list
		}
		return
	}
	switch f.open {
	case "{":
		if f.count%2 == 0 && !isStr {
			f.bad = true
		}
	case "#{":
		if !isStr {
			f.bad = true
		}
	case "«":
		if f.count == 0 && !isSym {
			f.bad = true
		}
	}
	f.count++
}

// closeOK tells whether the frame can be closed now into a well-formed form.
func (f *c16Frame) closeOK() bool {
	if len(f.pending) > 0 || f.bad {
		return false
	}
	switch f.open {
	case "{":
		return f.count%2 == 0
	case "«":
		return f.count >= 2 // constructor name + at least the format string (go-error)
	}
	return true
}

type c16Verdict struct {
	cat    int    // 1 complete, 2 completable (closer), 3 surplus/mismatch/multi-expression, 4 otherwise malformed or empty
	closer string // for cat 2
	why    string
}

// c16Classify is the harness's own bracket-stack machine.
func c16Classify(toks []c16Tok) c16Verdict {
	top := &c16Frame{open: ""}
	stack := []*c16Frame{top}
	cur := func() *c16Frame { return stack[len(stack)-1] }
	for _, t := range toks {
		if t.kind == ';' {
			continue
		}
		if len(stack) == 1 && top.count >= 1 && len(top.pending) == 0 {
			return c16Verdict{cat: 3, why: "token after a complete top-level expression"}
		}
		switch t.kind {
		case 'o':
			stack = append(stack, &c16Frame{open: t.text})
		case 'c':
			f := cur()
			if len(stack) == 1 {
				if len(f.pending) > 0 {
					return c16Verdict{cat: 4, why: "closer where a reader-macro operand is expected"}
				}
				return c16Verdict{cat: 3, why: "surplus closer"}
			}
			if len(f.pending) > 0 {
				return c16Verdict{cat: 4, why: "closer where a reader-macro operand is expected"}
			}
			if c16Closer[f.open] != t.text {
				return c16Verdict{cat: 3, why: "mismatched closer"}
			}
			if !f.closeOK() {
				return c16Verdict{cat: 4, why: "closing an ill-formed map/set/constructor"}
			}
			stack = stack[:len(stack)-1]
			cur().addForm(false, false)
		case 'a':
			cur().addForm(false, false)
		case 's':
			cur().addForm(true, false)
		case 'y':
			cur().addForm(false, true)
		case 'm':
			cur().pending = append(cur().pending, 1)
		case 'M':
			cur().pending = append(cur().pending, 2)
		}
	}
	if len(stack) == 1 {
		if top.count == 1 && len(top.pending) == 0 {
			return c16Verdict{cat: 1}
		}
		return c16Verdict{cat: 4, why: "empty text or pending reader macro at end of input"}
	}
	// open brackets remain: completable iff feeding the closers innermost-first succeeds
	innermost := c16Closer[cur().open]
	// simulate on a copy
	cp := make([]*c16Frame, len(stack))
	for i, f := range stack {
		g := *f
		g.pending = append([]int(nil), f.pending...)
		cp[i] = &g
	}
	for len(cp) > 1 {
		f := cp[len(cp)-1]
		if !f.closeOK() {
			return c16Verdict{cat: 4, why: "open brackets but not completable by closers alone"}
		}
		cp = cp[:len(cp)-1]
		cp[len(cp)-1].addForm(false, false)
	}
	if cp[0].count == 1 && len(cp[0].pending) == 0 {
		return c16Verdict{cat: 2, closer: innermost}
	}
	return c16Verdict{cat: 4, why: "open brackets but not completable by closers alone"}
}

func c16Join(r *rand.Rand, toks []c16Tok) string {
	var sb strings.Builder
	for i, t := range toks {
		if i > 0 {
			prev := toks[i-1]
			tight := (prev.kind == 'o' || t.kind == 'c') && prev.kind != 'm' && prev.kind != 'M' && prev.kind != ';' && t.kind != 'm' && t.kind != 'M'
			if prev.kind == ';' {
				// the comment token already ends with a newline
			} else if tight && r != nil && r.Intn(3) == 0 {
			} else if r != nil {
				sb.WriteString(gen.Pick(r, []string{" ", " ", "\n", "  ", "\t", "\r\n"}))
			} else {
				sb.WriteString(" ")
			}
		}
		sb.WriteString(t.text)
	}
	return sb.String()
}

// c16Check runs READ on the text and compares with the verdict.
// c16Pool collects texts for the concurrent-readers family.
var c16Pool []string
var c16Seen int

// c16Concurrent: several goroutines READ the pooled texts at the same time, in different orders; every reading must give
// exactly what the same text gives when read alone (same value or same error): readings do not share state.
func c16Concurrent(c *fw.Ctx, env types.EnvType, id string, texts []string) {
	c.Case(id, fmt.Sprintf("%d texts read concurrently by 6 goroutines", len(texts)), func() {
		outcome := func(t string) string {
			var ast types.MalType
			var err error
			p, site, msg, _ := fw.Guard(func() { ast, err = lisp.READ(t, types.NewCursorFile("REPL"), env) })
			switch {
			case p:
				return "panic@" + site + ": " + msg
			case err != nil:
				return fmt.Sprintf("error(multiline=%v): %v", repl.VerifMultiLine(err), err)
			}
			return "value: " + canon.Render(canon.FromGo(ast))
		}
		alone := make([]string, len(texts))
		for i, t := range texts {
			alone[i] = outcome(t)
		}
		var wg sync.WaitGroup
		var mu sync.Mutex
		var first string
		for g := 0; g < 6; g++ {
			wg.Add(1)
			go func(g int) {
				defer wg.Done()
				for round := 0; round < 40; round++ {
					for k := range texts {
						i := (k*(g+1) + round*7 + g*3) % len(texts)
						if got := outcome(texts[i]); got != alone[i] {
							mu.Lock()
							if first == "" {
								first = fmt.Sprintf("text %q read alone gives %s; read while other goroutines were reading it gave %s", texts[i], alone[i], got)
							}
							mu.Unlock()
							return
						}
					}
				}
			}(g)
		}
		wg.Wait()
		c.Count("concurrent_reader_batches", 1)
		c.Count("concurrent_readings", 6*40*len(texts))
		if first != "" {
			c.Violate(fw.Violation{Key: "concurrent-readings-interfere", What: first})
		}
	})
}

func c16Check(c *fw.Ctx, env types.EnvType, id string, toks []c16Tok, text string, what string) {
	c16Seen++
	if len(c16Pool) < 64 && len(text) < 600 && len(text) > 6 && c16Seen%211 == 0 {
		c16Pool = append(c16Pool, text)
	}
	c.Case(id, text, func() {
		v := c16Classify(toks)
		var err error
		p, site, msg, st := fw.Guard(func() { _, err = lisp.READ(text, types.NewCursorFile("REPL"), env) })
		if p {
			c.Violate(fw.Violation{Key: "panic@" + site, What: "READ panicked: " + msg, Detail: st})
			return
		}
		c.Count(fmt.Sprintf("category.%d", v.cat), 1)
		c.Count("kind."+what, 1)
		ml := err != nil && repl.VerifMultiLine(err)
		switch v.cat {
		case 1:
			if err != nil {
				key := "complete-rejected"
				if ml {
					key = "complete-reported-incomplete"
				}
				c.Violate(fw.Violation{Key: key, What: fmt.Sprintf("a complete well-formed expression was rejected: %v (multiLine=%v)", err, ml)})
			}
		case 2:
			c.Count("completable."+v.closer, 1)
			want := "expected '" + v.closer + "', got EOF"
			if err == nil {
				c.Violate(fw.Violation{Key: "incomplete-accepted", What: "a prefix with open brackets was accepted (silently truncated or completed)"})
				return
			}
			if !ml {
				c.Violate(fw.Violation{Key: "incomplete-not-multiline:" + v.closer, What: fmt.Sprintf("completable prefix (innermost closer %s) not classified as incomplete by the REPL: %v", v.closer, err)})
				return
			}
			if !strings.HasSuffix(err.Error(), want) {
				c.Violate(fw.Violation{Key: "incomplete-wrong-closer:" + v.closer, What: fmt.Sprintf("expected the EOF error to name %q, got: %v", v.closer, err)})
				return
			}
			c.Count("classifier_agreement", 1)
		case 3:
			if err == nil {
				c.Violate(fw.Violation{Key: "surplus-accepted", What: "text with " + v.why + " was accepted"})
				return
			}
			if ml {
				c.Violate(fw.Violation{Key: "surplus-reported-incomplete", What: fmt.Sprintf("text with %s is classified as incomplete input: %v", v.why, err)})
				return
			}
			c.Count("classifier_agreement", 1)
		case 4:
			if err == nil {
				c.Violate(fw.Violation{Key: "malformed-accepted", What: "malformed text (" + v.why + ") was accepted"})
			}
		}
	})
}

// c16Verdict3 is what C16 is about: accepted / incomplete (and which closer the error names) / rejected.
func c16Verdict3(text string, env types.EnvType) (string, bool) {
	var err error
	p, _, _, _ := fw.Guard(func() { _, err = lisp.READ(text, types.NewCursorFile("REPL"), env) })
	switch {
	case p:
		return "", false // panics are reported by c16Check / C05
	case err == nil:
		return "accepted", true
	case repl.VerifMultiLine(err):
		m := err.Error()
		if i := strings.LastIndex(m, "expected '"); i >= 0 {
			m = m[i:]
		}
		return "incomplete:" + m, true
	}
	return "rejected", true
}

// c16Grown: the way an interactive front end uses the reader - the same text is submitted again and again, longer each
// time. The text is a complete expression; it is cut at arbitrary characters (inside comments, atoms and strings too),
// the prefixes are read in growing order, and every reading must be classified exactly as the same text is classified
// when the reading before it was an unrelated one: the verdict is a function of the text, not of what was read earlier
// (seeded C16-m13: tokens of the last unfinished text cached and reused for any text that starts with it).
func c16Grown(c *fw.Ctx, env types.EnvType, r *rand.Rand, id string, full string) {
	c.Case(id, full, func() {
		var offs []int
		for i := range full {
			if i > 0 {
				offs = append(offs, i)
			}
		}
		if len(offs) == 0 {
			return
		}
		n := 2 + r.Intn(5)
		cuts := map[int]bool{}
		for k := 0; k < n; k++ {
			cuts[offs[r.Intn(len(offs))]] = true
		}
		// consecutive characters as well: a continuation of one character
		p0 := offs[r.Intn(len(offs))]
		cuts[p0] = true
		for _, o := range offs {
			if o > p0 {
				cuts[o] = true
				break
			}
		}
		var seq []int
		for _, o := range offs {
			if cuts[o] {
				seq = append(seq, o)
			}
		}
		seq = append(seq, len(full))
		after := make([]string, len(seq))
		for k, o := range seq {
			v, ok := c16Verdict3(full[:o], env)
			if !ok {
				return
			}
			after[k] = v
			c.Count("grown_text_readings", 1)
			if o < len(full) && !strings.ContainsAny(full[o-1:o], " \t\r\n") && !strings.ContainsAny(full[o:o+1], " \t\r\n") {
				c.Count("grown_text_cuts_inside_a_token_or_between_adjacent_tokens", 1)
			}
		}
		for k, o := range seq {
			if _, ok := c16Verdict3("unrelated-symbol", env); !ok {
				return
			}
			alone, ok := c16Verdict3(full[:o], env)
			if !ok {
				return
			}
			if alone != after[k] {
				prev := "(nothing)"
				if k > 0 {
					prev = full[:seq[k-1]]
				}
				c.Violate(fw.Violation{Key: "verdict-depends-on-earlier-reading", What: fmt.Sprintf("READ(%q) is classified %q after READ(%q) but %q after an unrelated reading", full[:o], after[k], prev, alone)})
				return
			}
		}
		if after[len(after)-1] != "accepted" {
			c.Violate(fw.Violation{Key: "complete-rejected-after-prefixes", What: fmt.Sprintf("the complete expression is classified %q when its prefixes were read before it", after[len(after)-1])})
			return
		}
		c.Count("grown_text_sequences", 1)
	})
}

var c16Atoms = []c16Tok{{"a", 'y'}, {"foo-bar", 'y'}, {"12", 'a'}, {"-3", 'a'}, {"nil", 'a'}, {"true", 'a'}, {":k", 's'}, {`"s"`, 's'},
	{`"(]{"`, 's'}, {`")"`, 's'}, {`"a\"]b"`, 's'}, {"¬}¬", 's'}, {"¬(¬¬[¬", 's'}, {`"»"`, 's'}, {`"#{"`, 's'}, {"¬multi\nline)¬", 's'}}
var c16Strs = []c16Tok{{":k", 's'}, {`"s"`, 's'}, {`"(]{"`, 's'}, {"¬}¬", 's'}, {`")"`, 's'}, {":k2", 's'}, {`"t"`, 's'}}
var c16Macros = []c16Tok{{"'", 'm'}, {"`", 'm'}, {"~", 'm'}, {"~@", 'm'}, {"@", 'm'}}
var c16Comments = []c16Tok{{";c\n", ';'}, {"; ) ] } »\n", ';'}, {";; ( [ {\n", ';'}, {";\"\n", ';'}}

// c16GenExpr emits the tokens of one well-formed expression.
func c16GenExpr(r *rand.Rand, depth int, withCtor bool, out *[]c16Tok) {
	cm := func() {
		if r.Intn(12) == 0 {
			*out = append(*out, c16Comments[r.Intn(len(c16Comments))])
		}
	}
	cm()
	if depth <= 0 || r.Intn(4) == 0 {
		*out = append(*out, c16Atoms[r.Intn(len(c16Atoms))])
		return
	}
	n := r.Intn(4)
	switch k := r.Intn(9); k {
	case 0, 1:
		*out = append(*out, c16Tok{"(", 'o'})
		for i := 0; i < n; i++ {
			c16GenExpr(r, depth-1, withCtor, out)
		}
		cm()
		*out = append(*out, c16Tok{")", 'c'})
	case 2:
		*out = append(*out, c16Tok{"[", 'o'})
		for i := 0; i < n; i++ {
			c16GenExpr(r, depth-1, withCtor, out)
		}
		cm()
		*out = append(*out, c16Tok{"]", 'c'})
	case 3:
		*out = append(*out, c16Tok{"{", 'o'})
		used := map[string]bool{}
		for i := 0; i < n; i++ {
			k := c16Strs[r.Intn(len(c16Strs))]
			if used[k.text] {
				continue
			}
			used[k.text] = true
			*out = append(*out, k)
			c16GenExpr(r, depth-1, withCtor, out)
		}
		cm()
		*out = append(*out, c16Tok{"}", 'c'})
	case 4:
		*out = append(*out, c16Tok{"#{", 'o'})
		for i := 0; i < n; i++ {
			*out = append(*out, c16Strs[r.Intn(len(c16Strs))])
		}
		*out = append(*out, c16Tok{"}", 'c'})
	case 5, 6:
		*out = append(*out, c16Macros[r.Intn(len(c16Macros))])
		c16GenExpr(r, depth-1, withCtor, out)
	case 7:
		*out = append(*out, c16Tok{"^", 'M'})
		c16GenExpr(r, depth-1, withCtor, out)
		c16GenExpr(r, depth-1, withCtor, out)
	default:
		if withCtor {
			*out = append(*out, c16Tok{"«", 'o'}, c16Tok{"go-error", 'y'}, c16Tok{`"x"`, 's'})
			*out = append(*out, c16Tok{"»", 'c'})
		} else {
			*out = append(*out, c16Atoms[r.Intn(len(c16Atoms))])
		}
	}
}

var c16ExhAlphabet = []c16Tok{{"(", 'o'}, {")", 'c'}, {"[", 'o'}, {"]", 'c'}, {"{", 'o'}, {"}", 'c'}, {"#{", 'o'}, {"a", 'y'}, {`"s"`, 's'}, {"'", 'm'}, {"^", 'M'}, {";c\n", ';'}}

func runC16(c *fw.Ctx) {
	env := hx.NewStdEnv()
	// (1) exhaustive: all token sequences up to length L over the reduced alphabet
	L := c.Pick(6, 7)
	idx := 0
	var rec func(prefix []c16Tok)
	rec = func(prefix []c16Tok) {
		if len(prefix) > 0 {
			if c.Mine(idx) {
				text := c16Join(nil, prefix)
				c16Check(c, nil, fmt.Sprintf("exh-%d", idx), prefix, text, "exhaustive")
				c.Distinct("shapes", text)
			}
			idx++
		}
		if len(prefix) == L {
			return
		}
		for _, t := range c16ExhAlphabet {
			rec(append(append([]c16Tok(nil), prefix...), t))
		}
	}
	rec(nil)

	// (1b) deep nesting: d open brackets of one or mixed kinds around an atom, complete and cut after the atom
	for di, d := range []int{10, 100, 255, 256, 257, 300, 1000, 3000} {
		if !c.Mine(di) {
			continue
		}
		for _, kind := range []string{"(", "[", "mixed"} {
			var toks []c16Tok
			var closers []c16Tok
			for k := 0; k < d; k++ {
				o := kind
				if kind == "mixed" {
					o = []string{"(", "[", "("}[k%3]
				}
				toks = append(toks, c16Tok{o, 'o'})
				closers = append([]c16Tok{{c16Closer[o], 'c'}}, closers...)
			}
			toks = append(toks, c16Tok{"a", 'y'})
			full := append(append([]c16Tok(nil), toks...), closers...)
			c16Check(c, nil, fmt.Sprintf("deepfull-%d-%s", d, kind), full, c16Join(nil, full), "deep-complete")
			c16Check(c, nil, fmt.Sprintf("deepcut-%d-%s", d, kind), toks, c16Join(nil, toks), "deep-cut")
			half := append(append([]c16Tok(nil), toks...), closers[:d/2]...)
			c16Check(c, nil, fmt.Sprintf("deephalf-%d-%s", d, kind), half, c16Join(nil, half), "deep-cut")
		}
	}
	// (2) generated expressions: every cut, every closer appended, one closer replaced, two expressions
	r := c.Rand("exprs")
	// the statement's closing brackets are those of list, vector, map and set; a stray » is not demanded to be
	// rejected (the reader treats it as a symbol character outside «…»)
	closers := []c16Tok{{")", 'c'}, {"]", 'c'}, {"}", 'c'}}
	for i := 0; i < c.PerShard(c.Pick(40000, 1000000)); i++ {
		var toks []c16Tok
		withCtor := r.Intn(3) == 0
		c16GenExpr(r, 1+r.Intn(5), withCtor, &toks)
		if len(toks) > 40 {
			continue
		}
		var e types.EnvType
		if withCtor {
			e = env
		}
		full := c16Join(r, toks)
		if i < 3 {
			c.Sample(full)
		}
		c16Check(c, e, fmt.Sprintf("full-%d", i), toks, full, "complete")
		c.Distinct("shapes", c16Join(nil, toks))
		for cut := 1; cut < len(toks); cut++ {
			p := toks[:cut]
			c16Check(c, e, fmt.Sprintf("cut-%d-%d", i, cut), p, c16Join(r, p), "cut")
			c.Count("cut_points", 1)
		}
		for ci, cl := range closers {
			t2 := append(append([]c16Tok(nil), toks...), cl)
			c16Check(c, e, fmt.Sprintf("surplus-%d-%d", i, ci), t2, c16Join(r, t2), "surplus-closer")
		}
		// replace one closer by a different kind
		var cpos []int
		for k, t := range toks {
			if t.kind == 'c' {
				cpos = append(cpos, k)
			}
		}
		if len(cpos) > 0 {
			k := cpos[r.Intn(len(cpos))]
			t2 := append([]c16Tok(nil), toks...)
			for {
				alt := closers[r.Intn(len(closers))]
				if alt.text != toks[k].text {
					t2[k] = alt
					break
				}
			}
			c16Check(c, e, fmt.Sprintf("mismatch-%d", i), t2, c16Join(r, t2), "mismatched-closer")
		}
		// two expressions
		var second []c16Tok
		c16GenExpr(r, r.Intn(3), false, &second)
		t3 := append(append([]c16Tok(nil), toks...), second...)
		c16Check(c, e, fmt.Sprintf("two-%d", i), t3, c16Join(r, t3), "two-expressions")
		if i%4 == 0 {
			c16Grown(c, e, r, fmt.Sprintf("grown-%d", i), full)
		}
	}
	// concurrent readers over the texts collected above
	if len(c16Pool) >= 8 {
		for i := 0; i < c.Pick(4, 40); i++ {
			c16Concurrent(c, env, fmt.Sprintf("concurrent-%d", i), c16Pool)
		}
	}
	// REPL sessions (c16repl.go)
	rs := c.Rand("repl-sessions")
	for i := 0; i < c.PerShard(c.Pick(480, 8000)); i++ {
		c16Session(c, rs, fmt.Sprintf("repl-%d", i))
	}
}

func init() {
	fw.Register(&fw.Property{
		ID:     "C16",
		Run:    runC16,
		Rule:   "every token sequence up to the tier's length over {( ) [ ] { } #{ a \"s\" ' ^ comment} plus, for seeded well-formed expressions of <=40 tokens over all bracket kinds, reader macros, strings/raw strings/comments containing brackets and «go-error …»: the full text, every cut after a token, grown texts (the complete text cut at 3-8 arbitrary characters, also inside comments, atoms and strings; the prefixes read in growing order; each verdict must equal the verdict of the same text read after an unrelated text), every closer appended, one closer replaced by another kind, and a second expression appended; each text is classified by the harness's own bracket-stack machine (complete / completable by closers with innermost closer / surplus, mismatch or several expressions / otherwise malformed) and READ's error is judged with the REPL's own multiLine classifier; distinct = distinct token sequences; REPL sessions: the real loop (repl.Execute, readline fed from a pipe) receives 2-6 self-evaluating entries typed over several lines with comments (some containing brackets) at line ends and on lines of their own: exactly one result line per entry, equal to the entry's value",
		Assume: []string{"'completable by appending closers' is computed by the harness stack machine (pending reader-macro operands, odd map arity, non-string map keys / set members make a prefix not completable: then only 'not accepted' is demanded)"},
		Finish: func(m *fw.Merged) {
			for _, cl := range []string{")", "]", "}"} {
				m.Floor("completable."+cl, 100)
			}
			m.Floor("classifier_agreement", 1000)
			m.Floor("repl_entries_with_comments_on_inner_lines", 100)
			m.Floor("repl_results_matching", 500)
			m.Extra["categories"] = m.CountsWithPrefix("category.")
			m.Extra["completable_prefixes_per_innermost_closer"] = m.CountsWithPrefix("completable.")
			m.Extra["text_kinds"] = m.CountsWithPrefix("kind.")
			m.Extra["exhaustive"] = true
		},
	})
}
