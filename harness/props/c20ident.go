package props

import (
	"context"
	"fmt"
	"sync"

	"github.com/jig/lisp"
	"github.com/jig/lisp/env"
	"github.com/jig/lisp/lib/call"
	"github.com/jig/lisp/types"

	"verifharness/fw"
)

// "The registered Go function is the one invoked": function values that share their code — closures made by one
// function literal, method values of one method over different receivers — are different functions. Each is registered
// (same lisp name, same declared bounds) in its own environment, or one after the other in the same environment, and
// every call must enter exactly the value registered under that name in that environment.

type c20Session struct {
	id      int
	entered *[8]int
}

func (s *c20Session) Whoami(x int) (int, error) {
	s.entered[s.id]++
	return s.id*1000 + x, nil
}

func (s *c20Session) WhoamiCtx(ctx context.Context, x int, rest ...int) (int, error) {
	s.entered[s.id]++
	return s.id*1000 + x + len(rest), nil
}

func c20MakeClosure(tag int, entered *[8]int) func(x int) (int, error) {
	return func(x int) (int, error) {
		entered[tag]++
		return tag*1000 + x, nil
	}
}

func c20MakeVariadic(tag int, entered *[8]int) func(xs ...types.MalType) (types.MalType, error) {
	return func(xs ...types.MalType) (types.MalType, error) {
		entered[tag]++
		return tag*1000 + len(xs), nil
	}
}

// c20Concurrent: one binding called from several goroutines at once, each call with its own arguments and its own
// context: every invocation sees exactly the arguments and the context of the call it belongs to.
func c20Concurrent(c *fw.Ctx) {
	type key struct{}
	shapes := []struct {
		name string
		reg  func(e types.EnvType)
		form func(g, k int) []types.MalType
		want func(g, k int) int
	}{
		{"ctx-fixed-2", func(e types.EnvType) {
			call.CallOverrideFN(e, "probe", func(ctx context.Context, a int, b string) (int, error) {
				who, _ := ctx.Value(key{}).(int)
				if fmt.Sprint(a) != b {
					return -1, nil
				}
				return who*1000000 + a, nil
			})
		}, func(g, k int) []types.MalType { return []types.MalType{k, fmt.Sprint(k)} }, func(g, k int) int { return g*1000000 + k }},
		{"ctx-variadic", func(e types.EnvType) {
			call.CallOverrideFN(e, "probe", func(ctx context.Context, a int, rest ...int) (int, error) {
				who, _ := ctx.Value(key{}).(int)
				if len(rest) != 1 || rest[0] != a+1 {
					return -1, nil
				}
				return who*1000000 + a, nil
			})
		}, func(g, k int) []types.MalType { return []types.MalType{k, k + 1} }, func(g, k int) int { return g*1000000 + k }},
		{"fixed-2", func(e types.EnvType) {
			call.CallOverrideFN(e, "probe", func(a int, b string) (int, error) {
				if fmt.Sprint(a) != b {
					return -1, nil
				}
				return a, nil
			})
		}, func(g, k int) []types.MalType { return []types.MalType{k, fmt.Sprint(k)} }, func(g, k int) int { return k }},
	}
	for si, sh := range shapes {
		sh := sh
		c.Case(fmt.Sprintf("concurrent-%d", si), "concurrent calls of one binding: "+sh.name, func() {
			e := env.NewEnv()
			if p, site, msg, st := fw.Guard(func() { sh.reg(e) }); p {
				c.Violate(fw.Violation{Key: "registration-panic:concurrent", What: site + ": " + msg, Detail: st})
				return
			}
			var wg sync.WaitGroup
			var mu sync.Mutex
			var bad string
			for g := 1; g <= 4; g++ {
				wg.Add(1)
				go func(g int) {
					defer wg.Done()
					ctx := context.WithValue(context.Background(), key{}, g)
					for k := 0; k < 20000; k++ {
						form := types.List{Val: append([]types.MalType{types.Symbol{Val: "probe"}}, sh.form(g, k+g*100000)...)}
						res, err := lisp.EVAL(ctx, form, e)
						if err != nil || res != sh.want(g, k+g*100000) {
							mu.Lock()
							if bad == "" {
								bad = fmt.Sprintf("goroutine %d called (probe %v) and got %v (err %v), expected %d: the function saw arguments or a context of another call", g, sh.form(g, k+g*100000), res, err, sh.want(g, k+g*100000))
							}
							mu.Unlock()
							return
						}
					}
				}(g)
			}
			wg.Wait()
			c.Count("concurrent_call_batches", 1)
			c.Count("concurrent_calls", 80000)
			if bad != "" {
				c.Violate(fw.Violation{Key: "arguments-of-another-call:" + sh.name, What: bad})
			}
		})
	}
}

func c20Identity(c *fw.Ctx) {
	type reg struct {
		name string
		mk   func(tag int, entered *[8]int) any
		decl []int
		args []types.MalType
		want func(tag int) int
	}
	regs := []reg{
		{"closures-of-one-literal", func(t int, e *[8]int) any { return c20MakeClosure(t, e) }, nil, []types.MalType{5}, func(t int) int { return t*1000 + 5 }},
		{"method-values-of-one-method", func(t int, e *[8]int) any { return (&c20Session{t, e}).Whoami }, nil, []types.MalType{5}, func(t int) int { return t*1000 + 5 }},
		{"method-values-with-context-and-bounds", func(t int, e *[8]int) any { return (&c20Session{t, e}).WhoamiCtx }, []int{1, 3}, []types.MalType{5, 6}, func(t int) int { return t*1000 + 6 }},
		{"variadic-closures-with-bounds", func(t int, e *[8]int) any { return c20MakeVariadic(t, e) }, []int{0, 2}, []types.MalType{1, 2}, func(t int) int { return t*1000 + 2 }},
	}
	for ri, rg := range regs {
		for mode := 0; mode < 3; mode++ {
			rg, mode := rg, mode
			c.Case(fmt.Sprintf("identity-%d-%d", ri, mode), fmt.Sprintf("%s, mode %d", rg.name, mode), func() {
				var entered [8]int
				envs := []types.EnvType{env.NewEnv(), env.NewEnv(), env.NewEnv()}
				order := []int{1, 2, 3}
				register := func(e types.EnvType, tag int) bool {
					p, site, msg, st := fw.Guard(func() { call.CallOverrideFN(e, "whoami", rg.mk(tag, &entered), rg.decl...) })
					c.Count("registrations", 1)
					if p {
						c.Violate(fw.Violation{Key: "registration-panic:shared-code:" + rg.name, What: "registration panicked at " + site + ": " + msg, Detail: st})
						return false
					}
					return true
				}
				switch mode {
				case 0: // each value in its own environment
					for i, tag := range order {
						if !register(envs[i], tag) {
							return
						}
					}
				case 1: // one environment, re-registered: the last registration is the binding
					for _, tag := range order {
						if !register(envs[0], tag) {
							return
						}
					}
					envs = envs[:1]
					order = []int{3}
				default: // registered in reverse order across environments, then the first environment re-registered
					for i := 2; i >= 0; i-- {
						if !register(envs[i], order[i]) {
							return
						}
					}
					if !register(envs[0], 4) {
						return
					}
					order = []int{4, 2, 3}
				}
				for round := 0; round < 2; round++ {
					for i, e := range envs {
						tag := order[i]
						before := entered
						form := types.List{Val: append([]types.MalType{types.Symbol{Val: "whoami"}}, rg.args...)}
						var res types.MalType
						var err error
						p, site, msg, st := fw.Guard(func() { res, err = lisp.EVAL(context.Background(), form, e) })
						c.Count("identity_calls", 1)
						if p {
							c.Violate(fw.Violation{Key: "panic@" + site, What: msg, Detail: st})
							return
						}
						var others []int
						for t := range entered {
							if t != tag && entered[t] != before[t] {
								others = append(others, t)
							}
						}
						if err != nil || res != rg.want(tag) || entered[tag] != before[tag]+1 || len(others) > 0 {
							c.Violate(fw.Violation{Key: "wrong-function-invoked:" + rg.name, What: fmt.Sprintf("environment %d has value #%d registered as whoami; calling it returned %v (err %v), entered #%d %d time(s) and other values %v", i, tag, res, err, tag, entered[tag]-before[tag], others)})
							return
						}
					}
				}
			})
		}
	}
}
