package props

import (
	"fmt"
	"math/rand"
	"sort"
	"strings"

	"github.com/jig/lisp"
	"github.com/jig/lisp/reader"
	"github.com/jig/lisp/types"

	"verifharness/canon"
	"verifharness/fw"
	"verifharness/gen"
)

// C15: placeholders are substituted as data and survive the preamble transport.

var c15NameRunes = []rune("abcXYZ019_-")

func c15Name(r *rand.Rand) string {
	if r.Intn(40) == 0 {
		// a name the code base itself uses in a header comment of loaded files: still an ordinary placeholder name
		return gen.Pick(r, []string{"MODULE", "MODULE", "module", "MODULES", "MODULE_"})
	}
	for {
		n := 1 + r.Intn(5)
		b := make([]rune, n)
		for i := range b {
			b[i] = c15NameRunes[r.Intn(len(c15NameRunes))]
		}
		s := string(b)
		return s
	}
}

// c15ValueClass classifies a value for evidence and finding keys.
func c15ValueClass(v *canon.Node) string {
	multi, jsonish, nested, tricky := false, false, false, false
	var walk func(n *canon.Node)
	walk = func(n *canon.Node) {
		switch n.K {
		case canon.Str:
			if strings.Contains(n.S, "\n") {
				multi = true
			}
			if strings.HasPrefix(n.S, `{"`) && strings.HasSuffix(n.S, "}") {
				jsonish = true
			}
			if strings.ContainsAny(n.S, "\";\\¬$()[]{}") {
				tricky = true
			}
		case canon.List, canon.Vec:
			nested = true
			for _, e := range n.L {
				walk(e)
			}
		case canon.Map:
			nested = true
			for k, e := range n.M {
				walk(canon.KeyNode(k))
				walk(e)
			}
		case canon.Set:
			nested = true
			for k := range n.Mem {
				walk(canon.KeyNode(k))
			}
		}
	}
	walk(v)
	switch {
	case multi && jsonish:
		return "multiline-raw-value"
	case multi:
		return "multiline-quoted-value"
	case jsonish:
		return "raw-value"
	case tricky && nested:
		return "nested-tricky"
	case tricky:
		return "tricky-string"
	case nested:
		return "nested"
	}
	return "plain"
}

func c15Value(r *rand.Rand) *canon.Node {
	s := func(x string) *canon.Node { return canon.St(x) }
	if r.Intn(4000) == 0 {
		// a big value: its preamble line is far longer than 64 KiB
		if r.Intn(2) == 0 {
			return s(strings.Repeat("long text ", 9000+r.Intn(5000)))
		}
		l := make([]*canon.Node, 15000+r.Intn(10000))
		for i := range l {
			l[i] = canon.In(i)
		}
		return canon.Ve(l...)
	}
	switch r.Intn(14) {
	case 0:
		return s(gen.Pick(r, []string{"{\"a\":\n 1}", "[{\"a\":\n 1}]", "[{\"a\": 1},\n {\"b\": 2}]", "[\n1,\n2\n]", "{\"a\": [\n{\"b\": 1}\n]}", "[{\"single\": \"line\"}]"})) // multi-line JSON
	case 1:
		return s("{\"key\": \"va¬lue\",\n  \"list\": [1, 2]\n}")
	case 2:
		return s("line1\n;; $x 1\nline3") // looks like a preamble line
	case 3:
		return s("\n;; $" + c15Name(r) + " (evil)")
	case 4:
		return s(`say "hi" \ ; not a comment ) ] }`)
	case 5:
		return s("$" + c15Name(r) + " inside a string")
	case 6:
		return s(`{"single-line": "json ¬ with raw quote"}`)
	case 7:
		return canon.Li(canon.Sy("+"), canon.In(1), canon.Li(canon.Sy("str"), s("a\nb"), s(";; $x 2")))
	case 8:
		return canon.Ma(map[string]*canon.Node{canon.Marker + "k": s("{\"nested\":\n true}"), "s\"q": canon.Ve(canon.In(1), canon.N())})
	case 9:
		return canon.In(r.Intn(1000) - 500)
	case 10:
		return canon.Ke(gen.Ident(r, 4))
	case 11:
		return c15Sanitize(s(gen.HostileString(r, 10, false)))
	default:
		o := gen.DefaultOpts()
		o.MaxDepth = 1 + r.Intn(4)
		o.Symbols = true
		v := gen.Value(r, o, 0)
		return c15Sanitize(v)
	}
}

// c15Sanitize removes what the statement's domain excludes: symbols/keywords/strings starting with '$' cannot be
// told apart from placeholders inside a value; strings starting with U+029E are keywords.
func c15Sanitize(n *canon.Node) *canon.Node {
	switch n.K {
	case canon.Sym:
		if strings.HasPrefix(n.S, "$") {
			return canon.Sy("s" + n.S[1:])
		}
	case canon.Str:
		for strings.HasPrefix(n.S, canon.Marker) {
			n = canon.St(n.S[len(canon.Marker):])
		}
		return n
	case canon.List, canon.Vec:
		l := make([]*canon.Node, len(n.L))
		for i, e := range n.L {
			l[i] = c15Sanitize(e)
		}
		return &canon.Node{K: n.K, L: l}
	case canon.Map:
		m := map[string]*canon.Node{}
		for k, e := range n.M {
			kk := k
			for strings.HasPrefix(kk, canon.Marker+canon.Marker) {
				kk = kk[len(canon.Marker):]
			}
			m[kk] = c15Sanitize(e)
		}
		return canon.Ma(m)
	}
	return n
}

// c15KeyNames: names of the current case whose value can be a hash-map key (string or keyword).
var c15KeyNames []string

const c15KeyMark = "\x01"

// c15Recent holds names that earlier cases of this worker gave values to (bounded).
var c15Recent []string

// c15Skeleton builds a source AST with placeholder leaves ($name symbols) and decoys.
func c15Skeleton(r *rand.Rand, names []string, d int, used map[string]int) *canon.Node {
	ph := func() *canon.Node {
		var n string
		if len(names) > 0 && r.Intn(5) != 0 {
			n = names[r.Intn(len(names))]
		} else if len(c15Recent) > 0 && r.Intn(2) == 0 {
			// a placeholder without a value reads as nil — also when an earlier text read in this process gave a
			// value to the very same name
			n = c15Recent[r.Intn(len(c15Recent))]
			for _, have := range names {
				if have == n {
					n = "missing-" + n
				}
			}
		} else {
			n = "missing-" + c15Name(r) // a placeholder without a value reads as nil
		}
		used[n]++
		return canon.Sy("$" + n)
	}
	if d <= 0 || r.Intn(4) == 0 {
		switch r.Intn(8) {
		case 0, 1, 2:
			return ph()
		case 3:
			dn := "x"
			if len(names) > 0 {
				dn = names[r.Intn(len(names))]
			}
			return canon.St("decoy $" + dn + " in a string") // must stay untouched
		case 4:
			return canon.St("{\"raw\": \"$x ¬ decoy\"}")
		case 5:
			return canon.In(r.Intn(10))
		case 6:
			return canon.Sy(gen.Pick(r, []string{"prn", "list", "a", "str"}))
		default:
			return canon.Ke("k")
		}
	}
	n := 1 + r.Intn(4)
	var l []*canon.Node
	for i := 0; i < n; i++ {
		l = append(l, c15Skeleton(r, names, d-1, used))
	}
	switch r.Intn(6) {
	case 0:
		return canon.Ve(l...)
	case 1:
		m := map[string]*canon.Node{}
		for i, e := range l {
			if i == 0 && len(c15KeyNames) > 0 && r.Intn(3) == 0 {
				// a placeholder in key position (its value is a string or a keyword)
				kn := c15KeyNames[r.Intn(len(c15KeyNames))]
				used[kn]++
				m[c15KeyMark+kn] = e
				continue
			}
			m[fmt.Sprintf("%sk%d", canon.Marker, i)] = e
		}
		return canon.Ma(m)
	case 2:
		return canon.Li(canon.Sy("quote"), canon.Li(l...))
	default:
		return canon.Li(append([]*canon.Node{canon.Sy(gen.Pick(r, []string{"list", "prn", "do", "str"}))}, l...)...)
	}
}

func c15Subst(n *canon.Node, vals map[string]*canon.Node) *canon.Node {
	switch n.K {
	case canon.Sym:
		if strings.HasPrefix(n.S, "$") {
			if v, ok := vals[n.S[1:]]; ok {
				return v
			}
			return canon.N()
		}
	case canon.List, canon.Vec:
		l := make([]*canon.Node, len(n.L))
		for i, e := range n.L {
			l[i] = c15Subst(e, vals)
		}
		return &canon.Node{K: n.K, L: l}
	case canon.Map:
		m := map[string]*canon.Node{}
		for k, e := range n.M {
			if strings.HasPrefix(k, c15KeyMark) {
				if raw, ok := canon.RawKey(vals[k[len(c15KeyMark):]]); ok {
					k = raw
				}
			}
			m[k] = c15Subst(e, vals)
		}
		return canon.Ma(m)
	}
	return n
}

func c15Render(r *rand.Rand, skel *canon.Node) string {
	var toks []string
	c19Tokens(skel, &toks)
	var sb strings.Builder
	sb.WriteString(gen.Pick(r, []string{"", ";; a leading comment with $decoy\n", ";; $looks-like preamble 1\n", "\n", ";; $x\n;; $y 2\n"}))
	for i, t := range toks {
		if i > 0 {
			sb.WriteString(gen.Pick(r, []string{" ", " ", " ", "\n", " ; comment with $decoy )\n"}))
		}
		if strings.HasPrefix(t, "\""+c15KeyMark) && strings.HasSuffix(t, "\"") {
			t = "$" + t[1+len(c15KeyMark):len(t)-1] // a placeholder in key position
		}
		sb.WriteString(t)
	}
	sb.WriteString(gen.Pick(r, []string{"", "\n", " ; trailing $decoy"}))
	return sb.String()
}

func runC15(c *fw.Ctx) {
	r := c.Rand("cases")
	for i := 0; i < c.PerShard(c.Pick(600000, 15000000)); i++ {
		nvals := r.Intn(7)
		vals := map[string]*canon.Node{}
		var names []string
		for len(names) < nvals {
			n := c15Name(r)
			if _, dup := vals[n]; dup {
				continue
			}
			vals[n] = c15Value(r)
			if len(names) > 0 && r.Intn(5) == 0 {
				// several names carry the same value (a document passed as $PRIMARY and $FALLBACK), short or long
				vals[n] = vals[names[r.Intn(len(names))]]
				if r.Intn(2) == 0 {
					vals[n] = canon.St(`{"document": "` + strings.Repeat("shared by several names ", 1+r.Intn(5)) + `", "n": [1, 2, 3]}`)
					vals[names[0]] = vals[n]
				}
				c.Count("names_sharing_one_value", 1)
			}
			names = append(names, n)
		}
		sort.Strings(names)
		used := map[string]int{}
		c15KeyNames = c15KeyNames[:0]
		for _, n := range names {
			if raw, ok := canon.RawKey(vals[n]); ok && !strings.HasPrefix(raw, canon.Marker+"k") && !strings.ContainsAny(raw, "\n\r") {
				c15KeyNames = append(c15KeyNames, n)
			}
		}
		skel := c15Skeleton(r, names, r.Intn(4), used)
		// remember (a bounded number of) names that have a value in this case for the cases that follow
		for _, n := range names {
			if len(c15Recent) < 8 {
				c15Recent = append(c15Recent, n)
			} else {
				c15Recent[r.Intn(8)] = n
			}
		}
		src := c15Render(r, skel)
		expected := c15Subst(skel, vals)
		gomap := map[string]types.MalType{}
		var desc []string
		for _, n := range names {
			gomap["$"+n] = canon.ToGo(vals[n])
			desc = append(desc, fmt.Sprintf("$%s = %s", n, canon.Render(vals[n])))
		}
		input := "source:\n" + src + "\nvalues:\n" + strings.Join(desc, "\n")
		c.Case(fmt.Sprintf("c-%d", i), input, func() {
			c.Count("placeholders_in_source", len(used))
			for n := range used {
				if v, ok := vals[n]; ok {
					c.Count("value_class."+c15ValueClass(v), 1)
				} else {
					c.Count("missing_value_placeholders", 1)
				}
			}
			// which value classes does this case transport at all (used or not: every value goes into the preamble)
			worst := "plain"
			order := []string{"plain", "nested", "tricky-string", "nested-tricky", "raw-value", "multiline-quoted-value", "multiline-raw-value"}
			rank := map[string]int{}
			for k, v := range order {
				rank[v] = k
			}
			for _, v := range vals {
				if cl := c15ValueClass(v); rank[cl] > rank[worst] {
					worst = cl
				}
			}
			c.Distinct("shapes", canon.Shape(skel)+"|"+worst)
			// route A: independent route, token-level substitution straight from the map
			var a types.MalType
			var errA error
			if p, site, msg, _ := fw.Guard(func() { a, errA = reader.Read_str(src, nil, &types.HashMap{Val: gomap}) }); p {
				c.Violate(fw.Violation{Key: "panic@" + site, What: "Read_str panicked: " + msg})
				return
			}
			if errA != nil {
				c.Violate(fw.Violation{Key: "read-str-error", What: "Read_str(src, values) failed: " + errA.Error()})
				return
			}
			if got := canon.FromGo(a); !canon.Equal(got, expected) {
				c.Violate(fw.Violation{Key: "substitution:" + worst, What: fmt.Sprintf("Read_str(src, values) = %s, expected %s", canon.Render(got), canon.Render(expected))})
				return
			}
			c.Count("direct_substitutions_checked", 1)
			// route B: transport through the preamble
			var text string
			var b types.MalType
			var errB error
			if p, site, msg, _ := fw.Guard(func() {
				text, errB = lisp.AddPreamble(src, gomap)
				if errB == nil {
					b, errB = lisp.READWithPreamble(text, nil, nil)
				}
			}); p {
				c.Violate(fw.Violation{Key: "panic@" + site, What: "AddPreamble/READWithPreamble panicked: " + msg})
				return
			}
			c.Count("transports", 1)
			if errB != nil {
				c.Violate(fw.Violation{Key: "transport-error:" + worst, What: "READWithPreamble(AddPreamble(src, values)) failed: " + errB.Error(), Detail: text})
				return
			}
			if got := canon.FromGo(b); !canon.Equal(got, expected) {
				c.Violate(fw.Violation{Key: "transport:" + worst, What: fmt.Sprintf("READWithPreamble(AddPreamble(src, values)) = %s, expected %s", canon.Render(got), canon.Render(expected)), Detail: text})
				return
			}
			if i == 0 {
				c.Sample(map[string]any{"source": src, "values": desc, "transport_text": text})
			}
		})
	}
}

func init() {
	fw.Register(&fw.Property{
		ID:      "C15",
		History: true,
		Run:     runC15,
		Rule:    "seeded cases: a source skeleton (nested lists/vectors/maps/quoted data) with 0-6 named placeholders in code position, quoted data, collections and map values, repeated or missing, decoy $names inside strings, raw strings and comments, preamble-looking comment lines at the top of the source itself, rendered with comments/newlines between tokens; values from a family stressing the transport (multi-line JSON text printed in raw form, strings that look like preamble lines, quotes/backslashes/semicolons/brackets/raw quotes, other placeholder names, nested data, hostile Unicode); the generator substitutes on its own AST; both Read_str(src, values) and READWithPreamble(AddPreamble(src, values)) must yield exactly that AST (independent structural comparison); distinct = (skeleton shape, hardest value class transported); a placeholder without a value often reuses a name that an earlier case of the same process gave a value to (state must not survive between reader calls)",
		Assume:  []string{"names range over [A-Za-z0-9_-] (the preamble grammar); $MODULE is reserved", "values contain no symbol/keyword/string token starting with $ (the reader defines such tokens as placeholders)"},
		Finish: func(m *fw.Merged) {
			m.Floor("transports", 5000)
			for _, cl := range []string{"plain", "nested", "tricky-string", "raw-value", "multiline-quoted-value", "multiline-raw-value"} {
				m.Floor("value_class."+cl, 50)
			}
			m.Floor("missing_value_placeholders", 100)
			m.Extra["value_classes_substituted"] = m.CountsWithPrefix("value_class.")
		},
	})
}
