package props

import (
	"context"
	"fmt"
	"math/rand"

	"github.com/jig/lisp"
	"github.com/jig/lisp/types"

	"verifharness/canon"
	"verifharness/fw"
	"verifharness/gen"
	"verifharness/hx"
	"verifharness/refmal"
)

// C12: macro calls equal their expansion; quasiquote builds exactly the template.

// c12Bindings: data the templates' unquotes refer to.
func c12Prelude() []*canon.Node {
	s, l := canon.Sy, canon.Li
	q := func(n *canon.Node) *canon.Node { return l(s("quote"), n) }
	return []*canon.Node{
		l(s("def"), s("x"), canon.In(7)),
		l(s("def"), s("lst"), q(l(canon.In(1), canon.In(2)))),
		l(s("def"), s("vc"), canon.Ve(canon.In(3))),
		l(s("def"), s("em"), q(l())),
		l(s("def"), s("sym"), q(s("a"))),
		l(s("def"), s("nested"), q(l(l(canon.In(1)), canon.Ve(canon.In(2))))),
	}
}

var c12Exprs = func() []*canon.Node {
	s, l := canon.Sy, canon.Li
	return []*canon.Node{s("x"), s("lst"), s("vc"), s("em"), s("sym"), s("nested"), l(s("trace!"), s("x")), l(s("trace!"), s("lst")), l(s("list"), s("x"), s("x")), l(s("vector")), canon.In(5)}
}()

type c12Enum struct {
	memo map[int][]*canon.Node
}

var c12Atoms = []*canon.Node{canon.In(1), canon.St("s"), canon.Ke("k"), canon.Sy("x"), canon.Sy("lst"), canon.N()}

// templates with exactly n nodes (an unquote/splice form counts 2 + its expression counted as 1).
func (en *c12Enum) tmpl(n int) []*canon.Node {
	if n <= 0 {
		return nil
	}
	if v, ok := en.memo[n]; ok {
		return v
	}
	var out []*canon.Node
	s := canon.Sy
	if n == 1 {
		out = append(out, c12Atoms...)
		out = append(out, canon.Li(), canon.Ve())
	}
	if n == 3 {
		for _, e := range []*canon.Node{s("x"), s("lst"), s("vc"), s("em"), canon.Li(s("trace!"), s("lst"))} {
			out = append(out, canon.Li(s("unquote"), e), canon.Li(s("splice-unquote"), e))
		}
	}
	// lists and vectors of sub-templates
	for _, seq := range en.seqs(n - 1) {
		if len(seq) == 0 {
			continue
		}
		out = append(out, canon.Li(seq...), canon.Ve(seq...))
	}
	// map with one key
	if n >= 3 {
		for _, t := range en.tmpl(n - 2) {
			out = append(out, canon.Ma(map[string]*canon.Node{canon.Marker + "k": t}))
		}
	}
	en.memo[n] = out
	return out
}

func (en *c12Enum) seqs(n int) [][]*canon.Node {
	if n == 0 {
		return [][]*canon.Node{{}}
	}
	var out [][]*canon.Node
	for first := 1; first <= n; first++ {
		for _, e := range en.tmpl(first) {
			for _, r := range en.seqs(n - first) {
				out = append(out, append([]*canon.Node{e}, r...))
			}
		}
	}
	return out
}

func c12RandomTemplate(r *rand.Rand, d, maxD int) *canon.Node {
	s := canon.Sy
	if d >= maxD || r.Intn(4) == 0 {
		switch r.Intn(4) {
		case 0:
			return canon.Li(s("unquote"), gen.Pick(r, c12Exprs))
		default:
			return gen.Pick(r, c12Atoms)
		}
	}
	n := r.Intn(5)
	var elts []*canon.Node
	for i := 0; i < n; i++ {
		switch r.Intn(6) {
		case 0:
			elts = append(elts, canon.Li(s("splice-unquote"), gen.Pick(r, c12Exprs)))
		case 1:
			elts = append(elts, canon.Li(s("unquote"), gen.Pick(r, c12Exprs)))
		default:
			elts = append(elts, c12RandomTemplate(r, d+1, maxD))
		}
	}
	if len(elts) >= 1 && r.Intn(8) == 0 {
		// the bare symbols unquote / splice-unquote as data at a non-head position (also second to last, where the
		// tail "unquote x" looks like an unquote form to a translation that recurses on the rest of the list):
		// everything that is not an unquote form is returned literally (seeded C12-m16)
		pos := 1 + r.Intn(len(elts))
		if len(elts) >= 2 && r.Intn(2) == 0 {
			pos = len(elts) - 1
		}
		elts = append(elts[:pos:pos], append([]*canon.Node{s(gen.Pick(r, []string{"unquote", "unquote", "splice-unquote"}))}, elts[pos:]...)...)
	}
	switch r.Intn(6) {
	case 0, 1:
		return canon.Ve(elts...)
	case 2:
		m := map[string]*canon.Node{}
		for i, e := range elts {
			m[fmt.Sprintf("%sk%d", canon.Marker, i)] = e
		}
		return canon.Ma(m)
	case 3:
		if len(elts) > 0 && r.Intn(3) == 0 {
			// the symbols unquote / splice-unquote as plain data at the head of a vector (also as an element of an
			// enclosing list or vector): a vector is never an unquote form
			inner := canon.Ve(append([]*canon.Node{s(gen.Pick(r, []string{"unquote", "splice-unquote"}))}, elts...)...)
			switch r.Intn(3) {
			case 0:
				return inner
			case 1:
				return canon.Li(canon.In(1), inner, canon.In(2))
			default:
				return canon.Ve(inner, canon.Li(s("unquote"), s("x")))
			}
		}
		return canon.Li(elts...)
	case 4:
		if r.Intn(3) == 0 {
			// a nested list headed by the symbol quasiquote (a second backquote) or quote is data like any other list:
			// the unquotes inside it are replaced all the same
			return canon.Li(append([]*canon.Node{s(gen.Pick(r, []string{"quasiquote", "quasiquote", "quote", "quasiquoteexpand"}))}, elts...)...)
		}
		return canon.Li(elts...)
	default:
		return canon.Li(elts...)
	}
}

// splicePositions records where splices sit in a template's lists (evidence).
func c12SplicePositions(c *fw.Ctx, t *canon.Node) {
	if t.K != canon.List && t.K != canon.Vec {
		return
	}
	for i, e := range t.L {
		if e.K == canon.List && len(e.L) > 0 && e.L[0].K == canon.Sym && e.L[0].S == "splice-unquote" {
			pos := "middle"
			if i == 0 {
				pos = "first"
			}
			if i == len(t.L)-1 {
				pos = "last"
			}
			if len(t.L) == 1 {
				pos = "only"
			}
			if i > 0 && t.L[i-1].K == canon.List && len(t.L[i-1].L) > 0 && t.L[i-1].L[0].K == canon.Sym && t.L[i-1].L[0].S == "splice-unquote" {
				pos = "adjacent"
			}
			kind := "list"
			if t.K == canon.Vec {
				kind = "vector"
			}
			c.Count("splice."+kind+"."+pos, 1)
		} else {
			c12SplicePositions(c, e)
		}
	}
}

// c12Relation: EVAL(call) must equal EVAL(EVAL('(macroexpand call))) in identically prepared scopes.
func c12Relation(c *fw.Ctx, b *diffBase, id string, prefix []*canon.Node, callForm *canon.Node) {
	text := progText(append(append([]*canon.Node{}, prefix...), callForm))
	c.Case(id, text, func() {
		prep := func() (types.EnvType, bool) {
			e := hx.Sub(b.base)
			for _, f := range prefix {
				o := hx.Eval(context.Background(), canon.ToGo(f), e)
				if o.Panicked || o.Err != nil {
					return nil, false
				}
			}
			return e, true
		}
		b.tracer.Reset()
		e1, ok := prep()
		if !ok {
			c.Count("relation_prefix_failed", 1)
			return
		}
		b.tracer.Reset()
		o1 := hx.Eval(context.Background(), canon.ToGo(callForm), e1)
		t1 := b.tracer.Snapshot()
		e2, _ := prep()
		b.tracer.Reset()
		mx := types.List{Val: []types.MalType{types.Symbol{Val: "macroexpand"}, canon.ToGo(callForm)}}
		ox := hx.Eval(context.Background(), mx, e2)
		tExp := b.tracer.Snapshot()
		if o1.Panicked || ox.Panicked {
			c.Violate(fw.Violation{Key: "panic@" + o1.Site + ox.Site, What: "panic: " + o1.PanicMsg + ox.PanicMsg})
			return
		}
		c.Count("call_vs_expansion", 1)
		if ox.Err != nil {
			// expansion itself fails: then the call must fail the same way, with the same effects
			if o1.Err == nil || hx.Classify(o1.Err) != hx.Classify(ox.Err) {
				c.Violate(fw.Violation{Key: "relation:expansion-error", What: fmt.Sprintf("macroexpand fails with %v but the call gives %v / %v", ox.Err, o1.Val, o1.Err)})
			}
			return
		}
		// the expansion's head must not be a macro in the caller's scope
		if l, isL := ox.Val.(types.List); isL && len(l.Val) > 0 {
			if s, isS := l.Val[0].(types.Symbol); isS {
				if v, err := e2.Get(s); err == nil {
					if mf, isM := v.(types.MalFunc); isM && mf.IsMacro {
						c.Violate(fw.Violation{Key: "relation:head-still-macro", What: "macroexpand returned a form whose head is still a macro: " + lisp.PRINT(ox.Val)})
						return
					}
				}
			}
		}
		o2 := hx.Eval(context.Background(), ox.Val, e2)
		t2 := append(tExp, b.tracer.Snapshot()[len(tExp):]...)
		if o2.Panicked {
			c.Violate(fw.Violation{Key: "panic@" + o2.Site, What: "panic evaluating the expansion: " + o2.PanicMsg})
			return
		}
		c1, c2 := hx.Classify(o1.Err), hx.Classify(o2.Err)
		if c1 != c2 {
			c.Violate(fw.Violation{Key: "relation:outcome", What: fmt.Sprintf("call: %v/%v, expansion %s: %v/%v", o1.Val, o1.Err, lisp.PRINT(ox.Val), o2.Val, o2.Err)})
			return
		}
		if o1.Err == nil && !c12SameModuloGensym(canon.FromGo(o1.Val), canon.FromGo(o2.Val)) {
			c.Violate(fw.Violation{Key: "relation:value", What: fmt.Sprintf("call gives %s, evaluating the expansion %s gives %s", lisp.PRINT(o1.Val), lisp.PRINT(ox.Val), lisp.PRINT(o2.Val))})
			return
		}
		if len(t1) != len(t2) {
			c.Violate(fw.Violation{Key: "relation:trace", What: fmt.Sprintf("call has %d trace events, expansion+evaluation %d (expansion %s)", len(t1), len(t2), lisp.PRINT(ox.Val))})
			return
		}
		for i := range t1 {
			if !c12SameModuloGensym(t1[i], t2[i]) {
				c.Violate(fw.Violation{Key: "relation:trace", What: fmt.Sprintf("trace event %d differs: %s vs %s", i, canon.Render(t1[i]), canon.Render(t2[i]))})
				return
			}
		}
	})
}

// c12SameModuloGensym: equal, treating gensym-generated symbols (G__n) as equal to each other.
func c12SameModuloGensym(a, b *canon.Node) bool {
	if a.K == canon.Sym && b.K == canon.Sym && len(a.S) > 3 && len(b.S) > 3 && a.S[:3] == "G__" && b.S[:3] == "G__" {
		return true
	}
	if a.K != b.K {
		return false
	}
	switch a.K {
	case canon.List, canon.Vec:
		if len(a.L) != len(b.L) {
			return false
		}
		for i := range a.L {
			if !c12SameModuloGensym(a.L[i], b.L[i]) {
				return false
			}
		}
		return true
	case canon.Map:
		if len(a.M) != len(b.M) {
			return false
		}
		for k, v := range a.M {
			w, ok := b.M[k]
			if !ok || !c12SameModuloGensym(v, w) {
				return false
			}
		}
		return true
	}
	return canon.Equal(a, b)
}

func c12IsMacroCall(pg *gen.PG, f *canon.Node, macros map[string]bool) bool {
	return f.K == canon.List && len(f.L) > 0 && f.L[0].K == canon.Sym && macros[f.L[0].S]
}

func runC12(c *fw.Ctx) {
	b := newDiffBase()
	prelude := c12Prelude()
	names := []string{"x", "lst", "vc", "em", "sym", "nested"}
	qq := func(t *canon.Node) *canon.Node { return canon.Li(canon.Sy("quasiquote"), t) }
	// (a) exhaustive templates
	en := &c12Enum{memo: map[int][]*canon.Node{}}
	maxN := c.Pick(5, 6)
	idx := 0
	for n := 1; n <= maxN; n++ {
		for _, t := range en.tmpl(n) {
			if c.Mine(idx) {
				forms := append(append([]*canon.Node{}, prelude...), qq(t))
				diffProgram(c, b, fmt.Sprintf("tmpl-%d", idx), forms, names, "template:")
				c.Count("templates", 1)
				c.Distinct("template_shapes", canon.Shape(t))
				c12SplicePositions(c, t)
			}
			idx++
		}
	}
	// (b) random deep templates
	r := c.Rand("templates")
	for i := 0; i < c.PerShard(c.Pick(200000, 5000000)); i++ {
		t := c12RandomTemplate(r, 0, c.Pick(5, 7))
		forms := append(append([]*canon.Node{}, prelude...), qq(t))
		diffProgram(c, b, fmt.Sprintf("rtmpl-%d", i), forms, names, "template:")
		c.Count("templates", 1)
		c.Distinct("template_shapes", canon.Shape(t))
		c12SplicePositions(c, t)
		if i == 0 {
			c.Sample(canon.Render(qq(t)))
		}
	}
	// (c) macros: programs vs the reference interpreter, and the call/expansion relation
	r2 := c.Rand("macros")
	pg := gen.NewPG(r2, gen.ProgOpts{Macros: true, Try: true, Faults: 3, MaxDepth: c.Pick(5, 6)})
	lib := map[string]bool{"cond": true, "and": true, "or": true, "->": true, "->>": true}
	for i := 0; i < c.PerShard(c.Pick(150000, 4000000)); i++ {
		forms := pg.Program()
		if i == 0 {
			c.Sample(progText(forms))
		}
		if !diffProgram(c, b, fmt.Sprintf("macro-%d", i), forms, pg.GlobalNames(), "macro:") {
			continue
		}
		// relation on every top-level form that is a call of a user or library macro (also below a trace!)
		macros := map[string]bool{}
		for k := range lib {
			macros[k] = true
		}
		for fi, f := range forms {
			if f.K == canon.List && len(f.L) == 3 && f.L[0].K == canon.Sym && f.L[0].S == "defmacro" {
				macros[f.L[1].S] = true
				continue
			}
			cand := f
			if cand.K == canon.List && len(cand.L) == 2 && cand.L[0].K == canon.Sym && cand.L[0].S == "trace!" {
				cand = cand.L[1]
			}
			if c12IsMacroCall(pg, cand, macros) {
				c12Relation(c, b, fmt.Sprintf("rel-%d-%d", i, fi), forms[:fi], cand)
			}
		}
	}
	for k, v := range pg.Stats {
		c.Count("feature."+k, v)
	}
	// (d) library macros called directly with effectful operands
	r3 := c.Rand("lib")
	pg2 := gen.NewPG(r3, gen.ProgOpts{Macros: true, MaxDepth: 4})
	for i := 0; i < c.PerShard(c.Pick(40000, 1000000)); i++ {
		pg2.Program() // advance generator state (fresh names)
		var f *canon.Node
		t := gen.Pick(r3, []gen.Ty{gen.TInt, gen.TBool})
		for tries := 0; tries < 20; tries++ {
			f = pg2.LibMacroForm(t, 0)
			if c12IsMacroCall(pg2, f, lib) {
				break
			}
		}
		if !c12IsMacroCall(pg2, f, lib) {
			continue
		}
		if !diffProgram(c, b, fmt.Sprintf("lib-%d", i), []*canon.Node{f}, nil, "libmacro:") {
			continue
		}
		c12Relation(c, b, fmt.Sprintf("librel-%d", i), nil, f)
		c.Count("library_macro_calls."+f.L[0].S, 1)
	}
	_ = refmal.None
}

func init() {
	fw.Register(&fw.Property{
		ID:         "C12",
		Run:        runC12,
		NonTrivial: "template_shapes",
		Rule:       "(a) every quasiquote template with <= N nodes (N=5 quick, 6 thorough) over atoms {1 \"s\" :k x lst nil () []}, lists, vectors, one-key maps and ~e / ~@e with e in {x lst vc em (trace! lst)}; (b) seeded deep templates (splices first/middle/last/adjacent/only, in lists and vectors, literal 'unquote' inside vectors, the bare symbols unquote / splice-unquote at non-head positions of lists and vectors, maps holding unquote forms); results compared with the harness's template substitution; (c) seeded programs defining macros from templates (fixed and & parameters, recursive, expanding to library macros, free symbols resolved at the caller, same definition as def) compared with the reference interpreter, and for every macro call form: EVAL(call) vs EVAL(EVAL('(macroexpand call))) in identically prepared scopes (value modulo gensym names, ordered trace, head of expansion not a macro); (d) library macros cond/and/or/->/->> on effectful operands vs their documented meaning; distinct = distinct template skeletons; templates contain nested lists headed by the symbols quasiquote/quote/quasiquoteexpand and vectors headed by unquote/splice-unquote as data; macros: call sites evaluated repeatedly, stateful expanders, varying head macro, try bodies ending in a macro call, macroexpand as data",
		Assume:     []string{"nested quasiquote levels and hygiene are outside the statement", "gensym-generated symbol names are compared modulo numbering"},
		Finish: func(m *fw.Merged) {
			m.Floor("templates", 10000)
			m.Floor("call_vs_expansion", 1000)
			for _, p := range []string{"splice.list.first", "splice.list.middle", "splice.list.last", "splice.list.adjacent", "splice.vector.first", "splice.vector.last"} {
				m.Floor(p, 10)
			}
			m.Extra["splice_positions"] = m.CountsWithPrefix("splice.")
			m.Extra["features"] = m.CountsWithPrefix("feature.")
			m.Extra["library_macro_calls"] = m.CountsWithPrefix("library_macro_calls.")
			m.Extra["outcome_histogram"] = m.CountsWithPrefix("outcome.")
			m.Extra["exhaustive"] = true
		},
	})
}
