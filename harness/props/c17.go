package props

import (
	"context"
	"fmt"
	"math/rand"
	"strings"
	"time"

	"github.com/jig/lisp"
	"github.com/jig/lisp/types"

	"verifharness/fw"
	"verifharness/gen"
	"verifharness/hx"
)

// C17: runtime errors point at the failing form.

type c17Src struct {
	sb        strings.Builder
	line      int
	r         *rand.Rand
	faultLine int
	faultEnd  int
}

func (b *c17Src) w(s string) {
	b.sb.WriteString(s)
	b.line += strings.Count(s, "\n")
}

// sep writes a token separator (space, newline + indent, comment to end of line, blank line).
func (b *c17Src) sep() {
	switch b.r.Intn(12) {
	case 0, 1:
		b.w("\n    ")
	case 2:
		b.w(" ; comment ( with \" brackets ]\n  ")
	case 3:
		b.w("\n\n  ")
	case 4:
		b.w("\n;; full-line comment )\n  ")
	default:
		b.w(" ")
	}
}

// toks writes tokens separated by sep(); the token FAULT is replaced by the fault text, recording its line.
func (b *c17Src) toks(ts []string, fault []string, at ...int) {
	faultAt := 0
	if len(at) > 0 {
		faultAt = at[0]
	}
	for i, t := range ts {
		if i > 0 {
			b.sep()
		}
		if t == "FAULT" {
			for j, ft := range fault {
				if j > 0 {
					b.sep()
				}
				if j == faultAt {
					b.faultLine = b.line
				}
				b.w(ft)
			}
			b.faultEnd = b.line
			continue
		}
		b.w(t)
	}
}

type c17Fault struct {
	kind string
	toks []string
	at   int // index of the token at which the faulty expression starts
}

var c17Faults = []c17Fault{
	{"undefined-symbol", []string{"undefined-sym-xyz"}, 0},
	{"undefined-function", []string{"(", "undefined-fn-xyz", "1", "2", ")"}, 1}, // the faulty expression is the symbol
	{"throw-string", []string{"(", "throw", `"planted"`, ")"}, 0},
	{"throw-map", []string{"(", "throw", "{", ":a", "1", "}", ")"}, 0},
	{"throw-computed-list", []string{"(", "throw", "(", "list", "1", "(", "+", "1", "2", ")", ")", ")"}, 0},
	{"throw-computed-call", []string{"(", "throw", "(", "str", "\"a\"", "\"b\"", ")", ")"}, 0},
	{"div-by-zero", []string{"(", "/", "1", "0", ")"}, 0},
	{"nth-out-of-range", []string{"(", "nth", "[", "]", "3", ")"}, 0},
	{"type-error", []string{"(", "+", "1", `"s"`, ")"}, 0},
	{"assert-false", []string{"(", "assert", "false", `"planted assert"`, ")"}, 0},
	{"assert-nil", []string{"(", "assert", "nil", ")"}, 0},
	{"non-callable", []string{"(", "1", "2", ")"}, 0},
	{"read-string-error", []string{"(", "read-string", `"\n\n(1 2"`, ")"}, 0},
	{"eval-of-read-form", []string{"(", "eval", "(", "read-string", `"\n\n\n(undefined-in-string 1)"`, ")", ")"}, 0},
}

type c17Wrap struct {
	name      string
	pre, post []string
}

var c17Wraps = []c17Wrap{
	{"let", []string{"(", "let", "(", "a", "1", ")"}, []string{")"}},
	{"let-binding", []string{"(", "let", "[", "b"}, []string{"]", "b", ")"}},
	{"if-then", []string{"(", "if", "true"}, []string{"0", ")"}},
	{"if-else", []string{"(", "if", "false", "0"}, []string{")"}},
	{"do", []string{"(", "do", "1"}, []string{")"}},
	{"fn-call", []string{"(", "(", "fn", "(", "x", ")"}, []string{")", "1", ")"}},
	{"vector", []string{"[", "1"}, []string{"2", "]"}},
	{"map-literal", []string{"{", ":k"}, []string{"}"}},
	{"cond", []string{"(", "cond", "false", "1", ":else"}, []string{")"}},
	{"and", []string{"(", "and", "true"}, []string{")"}},
	{"or", []string{"(", "or", "false"}, []string{")"}},
	{"thread-first", []string{"(", "->", "1", "(", "list"}, []string{")", ")"}},
	{"thread-last", []string{"(", "->>", "1", "(", "list"}, []string{")", ")"}},
	{"call-arg", []string{"(", "list", "1"}, []string{"2", ")"}},
	{"raw-string-before", []string{"(", "list", "¬multi\nline\nraw ) string¬"}, []string{")"}},
}

var c17Correct = [][]string{
	{"(", "def", "gN", "(", "+", "1", "2", ")", ")"},
	{"(", "def", "gN", "¬a multi-line\nraw string (\nwith brackets¬", ")"},
	{"(", "def", "gN", "(", "fn", "(", "x", ")", "(", "if", "(", "<", "x", "1", ")", "0", "(", "+", "x", "1", ")", ")", ")", ")"},
	{"(", "trace!", "(", "list", "1", `"two"`, ":three", ")", ")"},
	{"(", "let", "(", "a", "1", "b", "2", ")", "(", "trace!", "(", "+", "a", "b", ")", ")", ")"},
	{"(", "trace!", "{", ":a", "[", "1", "2", "]", `"b"`, "nil", "}", ")"},
	{"(", "cond", "false", "1", ":else", "(", "trace!", ":ok", ")", ")"},
	{"(", "try", "(", "throw", "1", ")", "(", "catch", "e", "(", "trace!", "e", ")", ")", ")"},
}

type c17Span struct{ start, end int }

func c17Program(r *rand.Rand) (text string, fault c17Fault, wrappers []string, mode string, container c17Span, faultLine int, callSpan c17Span, callLine int) {
	b := &c17Src{r: r, line: 1}
	// leading blank lines and comment lines before the first token
	b.w(gen.Pick(r, []string{"", "", "\n", "\n\n\n", ";; header comment\n", "\n;; header (\n\n", "  \n\t\n"}))
	b.w("(do\n")
	nBefore, nAfter := r.Intn(4), r.Intn(3)
	gi := 0
	correct := func() {
		if r.Intn(3) == 0 {
			b.w(gen.Pick(r, []string{"\n", ";; a comment line\n", "\n\n;; (another one\n\n", "  ;; indented \" comment\n"}))
		}
		t := append([]string(nil), gen.Pick(r, c17Correct)...)
		for i := range t {
			if t[i] == "gN" {
				t[i] = fmt.Sprintf("g%d", gi)
				gi++
			}
		}
		b.w("  ")
		b.toks(t, nil)
		b.w("\n")
	}
	for i := 0; i < nBefore; i++ {
		correct()
	}
	fault = gen.Pick(r, c17Faults)
	if (fault.kind == "undefined-symbol" || fault.kind == "undefined-function") && r.Intn(2) == 0 {
		// the undefined name is mentioned earlier in the text (as quoted data, as a local name, in a branch not taken):
		// the error must still point at the occurrence that is evaluated
		nm := fault.toks[fault.at]
		b.w("  ")
		b.toks(gen.Pick(r, [][]string{
			{"(", "def", "earlier-mention", "(", "quote", "(", nm, "1", nm, ")", ")", ")"},
			{"(", "let", "(", nm, "1", ")", "(", "trace!", nm, ")", ")"},
			{"(", "if", "true", ":taken", "(", nm, ")", ")"},
			{"(", "def", "earlier-fn", "(", "fn", "(", nm, ")", nm, ")", ")"},
		}), nil)
		b.w("\n")
	}
	// wrap the fault
	depth := r.Intn(6)
	inner := []string{"FAULT"}
	for d := 0; d < depth; d++ {
		w := gen.Pick(r, c17Wraps)
		wrappers = append(wrappers, w.name)
		inner = append(append(append([]string{}, w.pre...), inner...), w.post...)
	}
	mode = gen.Pick(r, []string{"direct", "direct", "deferred-direct-call", "deferred-nested-call", "deferred-map", "deferred-apply", "deferred-swap", "deferred-closure", "deferred-macro-expansion"})
	if r.Intn(3) == 0 {
		b.w("\n;; the faulty form follows\n")
	}
	switch mode {
	case "direct":
		b.w("  ")
		container.start = b.line
		if r.Intn(2) == 0 {
			b.toks(append(append([]string{"(", "trace!"}, inner...), ")"), fault.toks, fault.at)
		} else {
			b.toks(inner, fault.toks, fault.at)
		}
		container.end = b.line
		b.w("\n")
		faultLine = b.faultLine
	default:
		// the fault sits in the body of a function defined here and called from a later top-level form
		b.w("  ")
		container.start = b.line
		if mode == "deferred-macro-expansion" {
			// the fault is evaluated while a macro defined here expands a call written in a later form
			b.toks(append(append([]string{"(", "defmacro", "faulty", "(", "fn", "(", "x", ")", "(", "do"}, inner...), "(", "list", "(", "quote", "list", ")", "x", ")", ")", ")", ")"), fault.toks, fault.at)
		} else if mode == "deferred-closure" {
			b.toks(append(append([]string{"(", "def", "faulty", "(", "let", "(", "k", "1", ")", "(", "fn", "(", "x", ")"}, inner...), ")", ")", ")"), fault.toks, fault.at)
		} else {
			b.toks(append(append([]string{"(", "def", "faulty", "(", "fn", "(", "x", ")", "(", "trace!", ":in-body", ")"}, inner...), ")", ")"), fault.toks, fault.at)
		}
		container.end = b.line
		b.w("\n")
		faultLine = b.faultLine
		for i := 0; i < r.Intn(3); i++ {
			correct()
		}
		var call []string
		switch mode {
		case "deferred-direct-call", "deferred-closure", "deferred-macro-expansion":
			call = []string{"(", "faulty", "1", ")"}
		case "deferred-nested-call":
			call = []string{"(", "trace!", "(", "list", "0", "(", "faulty", "1", ")", ")", ")"}
		case "deferred-map":
			call = []string{"(", "map", "faulty", "[", "1", "2", "]", ")"}
		case "deferred-apply":
			call = []string{"(", "apply", "faulty", "[", "1", "]", ")"}
		case "deferred-swap":
			call = []string{"(", "swap!", "(", "atom", "1", ")", "faulty", ")"}
		}
		b.w("  ")
		callSpan.start = b.line
		callLine = b.line
		b.toks(call, nil)
		callSpan.end = b.line
		b.w("\n")
	}
	for i := 0; i < nAfter; i++ {
		correct()
	}
	b.w(")\n")
	return b.sb.String(), fault, wrappers, mode, container, faultLine, callSpan, callLine
}

func runC17(c *fw.Ctx) {
	base := hx.NewStdEnv()
	tr := &hx.Tracer{}
	hx.InstallTrace(base, tr)
	r := c.Rand("progs")
	r17names := c.Rand("module-names")
	for i := 0; i < c.PerShard(c.Pick(600000, 15000000)); i++ {
		text, fault, wrappers, mode, cont, fline, callSpan, callLine := c17Program(r)
		c.Case(fmt.Sprintf("p-%d", i), text, func() {
			module := fmt.Sprintf("prog17-%d.lisp", i%3)
			if i%4 == 0 {
				// the very same text was read before under another module name (not evaluated): positions belong to a reading
				lisp.READ(text, types.NewCursorFile("scratch-name.lisp"), nil)
				c.Count("texts_read_before_under_another_module", 1)
			}
			cursor := types.NewCursorFile(module)
			if i%5 == 2 {
				// the module name comes from the header line load-file writes (";; $MODULE <name>") and the text is read
				// without a cursor; names as file systems allow them: blanks, two blanks, backslashes, non-ASCII, a '$'
				// (seeded C17-m14). Every line of the program moves down by one.
				module = gen.Pick(r17names, []string{"my programs/prog one.lisp", "dir  with two blanks/p.lisp", `C:\Users\x y\p.lisp`, "répertoire/données.lisp", "a$b/c;d.lisp", "plain.lisp"})
				text = ";; $MODULE " + module + "\n" + text
				cursor = nil
				fline, callLine = fline+1, callLine+1
				cont.start, cont.end, callSpan.start, callSpan.end = cont.start+1, cont.end+1, callSpan.start+1, callSpan.end+1
				c.Count("module_name_from_header_line", 1)
			}
			ast, err := lisp.READ(text, cursor, nil)
			if err != nil {
				c.Violate(fw.Violation{Key: "read-error", What: "generated program rejected by READ: " + err.Error()})
				return
			}
			ctx, cancel := context.WithTimeout(context.Background(), 10*time.Second)
			defer cancel()
			o := hx.Eval(ctx, ast, hx.Sub(base))
			c.Count("programs", 1)
			c.Count("fault."+fault.kind, 1)
			c.Count("mode."+mode, 1)
			for _, w := range wrappers {
				c.Count("wrapper."+w, 1)
			}
			if o.Panicked {
				c.Violate(fw.Violation{Key: "panic@" + o.Site, What: o.PanicMsg, Detail: o.Stack})
				return
			}
			if o.Err == nil {
				c.Violate(fw.Violation{Key: "fault-not-raised:" + fault.kind, What: "the planted fault did not produce an error"})
				return
			}
			pe, ok := o.Err.(interface{ Position() *types.Position })
			if !ok || pe.Position() == nil {
				c.Count("errors_without_position", 1)
				c.Count("unpositioned."+fault.kind, 1)
				return
			}
			p := pe.Position()
			c.Count("errors_with_position", 1)
			c.Count("positioned."+fault.kind, 1)
			c.Distinct("shapes", fault.kind+"|"+mode+"|"+strings.Join(wrappers, ">"))
			where := fmt.Sprintf("position %s; fault %q on line %d inside top-level form lines %d-%d (mode %s, wrappers %v)", p, strings.Join(fault.toks, " "), fline, cont.start, cont.end, mode, wrappers)
			if p.Module == nil || *p.Module != module {
				got := "<nil>"
				if p.Module != nil {
					got = *p.Module
				}
				c.Violate(fw.Violation{Key: "module:" + mode, What: fmt.Sprintf("error position names module %s instead of %s; %s", got, module, where)})
				return
			}
			readingA := p.BeginRow >= cont.start && p.Row <= cont.end && p.BeginRow <= fline && fline <= p.Row
			readingB := false
			if mode == "deferred-map" || mode == "deferred-apply" || mode == "deferred-swap" {
				// the failing builtin call is a faulty expression in its own right
				readingB = p.BeginRow >= callSpan.start && p.Row <= callSpan.end && p.BeginRow <= callLine && callLine <= p.Row
			}
			if !readingA && !readingB {
				key := "position:" + mode + ":" + fault.kind
				c.Violate(fw.Violation{Key: key, What: "error position does not lie within the top-level form containing the fault or does not cover the fault's line: " + where + "; error: " + o.Err.Error()})
				return
			}
			if readingB && !readingA {
				c.Count("accepted_by_builtin_call_reading", 1)
			}
			if i == 0 {
				c.Sample(map[string]any{"program": text, "fault_line": fline, "position": p.String()})
			}
		})
	}
}

func init() {
	fw.Register(&fw.Property{
		ID:     "C17",
		Run:    runC17,
		Rule:   "seeded programs: (do + 0-3 correct multi-line top-level forms + exactly one planted fault (10 kinds: undefined symbol/function, throw of string/map, division by zero, nth out of range, type error, assert false/nil, non-callable head) wrapped to depth 0-5 in let/let-binding/if/do/fn-call/vector/map-literal/cond/and/or/->/->>/call-argument/after a multi-line raw string + 0-2 correct forms, with comments (containing brackets and quotes), blank lines and multi-line raw strings between any tokens; the fault sits directly in a top-level form or in the body of a function/closure defined in one form and called from a later one (directly, nested, through map/apply/swap!); the generator knows the line span of every top-level form and the fault's first line; a positioned error must name the module, lie within the containing top-level form and cover the fault's line (for faults reached through a higher-order builtin, the position of that builtin call is accepted as well); distinct = (fault kind, mode, wrapper chain); faults evaluated at macro-expansion time of a macro defined in an earlier form; module names vary per reading and every fourth text is first read under another module name; every fifth text gets its module name from a ';; $MODULE <name>' header line (names with blanks, backslashes, non-ASCII) and is read without a cursor",
		Assume: []string{"columns are not part of the statement", "errors without position are counted, not judged", "errors raised on other threads are excluded"},
		Finish: func(m *fw.Merged) {
			m.Floor("errors_with_position", 1000)
			for _, f := range c17Faults {
				m.Floor("positioned."+f.kind, 1)
			}
			m.Extra["positioned_per_fault_kind"] = m.CountsWithPrefix("positioned.")
			m.Extra["unpositioned_per_fault_kind"] = m.CountsWithPrefix("unpositioned.")
			m.Extra["modes"] = m.CountsWithPrefix("mode.")
			m.Extra["wrappers"] = m.CountsWithPrefix("wrapper.")
		},
	})
}
