package props

import (
	"context"
	"fmt"
	"math/rand"
	"sort"
	"strings"
	"unicode"
	"unicode/utf8"

	"github.com/jig/lisp"
	"github.com/jig/lisp/types"

	"verifharness/canon"
	"verifharness/fw"
	"verifharness/gen"
	"verifharness/hx"
)

// C06: READ(PRINT(v)) = v for data values; READ(PRINT(READ(s))) = READ(s) for accepted texts without floats.

// c06StrClasses names the character classes present in the strings of a value (finding key material).
func c06StrClasses(n *canon.Node, out map[string]bool) {
	cls := func(s string, what string) {
		for _, r := range s {
			switch {
			case r == 0:
				out[what+":NUL"] = true
			case r == 'ʞ':
				out[what+":marker"] = true
			case r == '¬':
				out[what+":rawquote"] = true
			case r == '"':
				out[what+":dquote"] = true
			case r == '\\':
				out[what+":backslash"] = true
			case r == '\n':
				out[what+":newline"] = true
			case r == '\r':
				out[what+":CR"] = true
			case r == '\t':
				out[what+":tab"] = true
			case r == 0xFEFF:
				out[what+":BOM"] = true
			case r < 0x20 || r == 0x7f:
				out[what+":control"] = true
			case r > 0xFFFF:
				out[what+":astral"] = true
			case r > 0x7f:
				out[what+":nonascii"] = true
			}
		}
		if strings.HasPrefix(s, `{"`) && strings.HasSuffix(s, `}`) {
			out[what+":rawform"] = true
		}
	}
	switch n.K {
	case canon.Str:
		cls(n.S, "string")
	case canon.Kw:
		cls(n.S, "keyword")
	case canon.Sym:
		cls(n.S, "symbol")
	case canon.Int:
		if n.I < 0 {
			out["int:negative"] = true
		}
	case canon.List, canon.Vec:
		for _, e := range n.L {
			c06StrClasses(e, out)
		}
	case canon.Map:
		for k, e := range n.M {
			c06StrClasses(canon.KeyNode(k), out)
			c06StrClasses(e, out)
		}
	case canon.Set:
		for k := range n.Mem {
			c06StrClasses(canon.KeyNode(k), out)
		}
	}
}

func c06Key(n *canon.Node) string {
	m := map[string]bool{}
	c06StrClasses(n, m)
	var l []string
	for k := range m {
		l = append(l, k)
	}
	sort.Strings(l)
	if len(l) == 0 {
		return "roundtrip:" + n.K.String()
	}
	return "roundtrip:" + strings.Join(l, ",")
}

// c06Minimize: when a compound value fails, find a failing leaf string to make the key precise.
func c06FailingLeaf(n *canon.Node, fails func(*canon.Node) bool) *canon.Node {
	switch n.K {
	case canon.List, canon.Vec:
		for _, e := range n.L {
			if fails(e) {
				return c06FailingLeaf(e, fails)
			}
		}
	case canon.Map:
		for k, e := range n.M {
			kn := canon.KeyNode(k)
			if fails(kn) {
				return kn
			}
			if fails(e) {
				return c06FailingLeaf(e, fails)
			}
		}
	case canon.Set:
		for k := range n.Mem {
			kn := canon.KeyNode(k)
			if fails(kn) {
				return kn
			}
		}
	}
	return n
}

// minimal failing substring-class: reduce a failing string to the classes that still fail alone
func c06StringKey(s string, fails func(*canon.Node) bool) string {
	// try every single rune, then every pair of runes (in order), of the string
	rs := []rune(s)
	for _, r := range rs {
		if string(r) == canon.Marker {
			continue
		}
		if fails(canon.St(string(r))) {
			return c06Key(canon.St(string(r))) + ":single"
		}
	}
	for i := 0; i < len(rs); i++ {
		for j := i + 1; j < len(rs) && j < i+4; j++ {
			t := string(rs[i]) + string(rs[j])
			if strings.HasPrefix(t, canon.Marker) {
				continue
			}
			if fails(canon.St(t)) {
				return c06Key(canon.St(t)) + ":pair"
			}
		}
	}
	// inner: letter-wrapped
	for _, r := range rs {
		t := "a" + string(r) + "b"
		if fails(canon.St(t)) {
			return c06Key(canon.St(t)) + ":inner"
		}
	}
	return c06Key(canon.St(s))
}

func c06RoundTrip(v *canon.Node, env types.EnvType, viaBuiltin bool) (ok bool, printed string, detail string, panicked bool) {
	g := canon.ToGo(v)
	var back types.MalType
	var err error
	p, site, msg, _ := fw.Guard(func() {
		if viaBuiltin {
			// (read-string (pr-str (quote v)))
			q := types.List{Val: []types.MalType{types.Symbol{Val: "quote"}, g}}
			prs := types.List{Val: []types.MalType{types.Symbol{Val: "pr-str"}, q}}
			var pv types.MalType
			pv, err = lisp.EVAL(context.Background(), prs, env)
			if err != nil {
				return
			}
			printed, _ = pv.(string)
			back, err = lisp.EVAL(context.Background(), types.List{Val: []types.MalType{types.Symbol{Val: "read-string"}, printed}}, env)
		} else {
			printed = lisp.PRINT(g)
			back, err = lisp.READ(printed, nil, nil)
		}
	})
	if p {
		return false, printed, "panic at " + site + ": " + msg, true
	}
	if err != nil {
		return false, printed, "READ error: " + err.Error(), false
	}
	b := canon.FromGo(back)
	if !canon.Equal(b, v) {
		return false, printed, "read back as " + canon.Render(b), false
	}
	return true, printed, "", false
}

func c06Check(c *fw.Ctx, env types.EnvType, id string, v *canon.Node) {
	c.Case(id, canon.Render(v), func() {
		for _, via := range []bool{false, true} {
			ok, printed, detail, _ := c06RoundTrip(v, env, via)
			c.Count("roundtrips", 1)
			if strings.HasPrefix(printed, "¬") || strings.Contains(printed, " ¬") || strings.Contains(printed, "(¬") || strings.Contains(printed, "[¬") {
				c.Count("raw_printer_used", 1)
			} else if strings.Contains(printed, `"`) {
				c.Count("quoted_printer_used", 1)
			}
			if !ok {
				fails := func(n *canon.Node) bool { o, _, _, _ := c06RoundTrip(n, env, via); return !o }
				leaf := c06FailingLeaf(v, fails)
				key := c06Key(leaf)
				if leaf.K == canon.Str {
					key = c06StringKey(leaf.S, fails)
				}
				route := "PRINT/READ"
				if via {
					route = "pr-str/read-string"
				}
				c.Violate(fw.Violation{Key: key, What: fmt.Sprintf("%s round trip changed the value: printed %q, %s (failing leaf %s)", route, printed, detail, canon.Render(leaf))})
				return
			}
		}
		m := map[string]bool{}
		c06StrClasses(v, m)
		for k := range m {
			c.Count("class."+k, 1)
		}
		c.Max("max_depth", int64(canon.Depth(v)))
	})
}

var c06Alphabet = []string{"a", "n", `"`, `\`, "\n", "\t", "¬", "ʞ", "{", "}", " ", ";", "$", "\r"}

func c06TextNoFloat(ast types.MalType) bool {
	switch t := ast.(type) {
	case float32, float64:
		return false
	case types.List:
		for _, e := range t.Val {
			if !c06TextNoFloat(e) {
				return false
			}
		}
	case types.Vector:
		for _, e := range t.Val {
			if !c06TextNoFloat(e) {
				return false
			}
		}
	case types.HashMap:
		for _, e := range t.Val {
			if !c06TextNoFloat(e) {
				return false
			}
		}
	}
	return true
}

// c06IsData tells whether an AST consists of data kinds only (READ with an environment can build atoms/errors).
func c06IsData(n *canon.Node) bool {
	switch n.K {
	case canon.Opaque:
		return false
	case canon.List, canon.Vec:
		for _, e := range n.L {
			if !c06IsData(e) {
				return false
			}
		}
	case canon.Map:
		for _, e := range n.M {
			if !c06IsData(e) {
				return false
			}
		}
	}
	return true
}

func c06Text(c *fw.Ctx, id, s string) {
	c.Case(id, s, func() {
		var a1 types.MalType
		var err error
		if p, _, _, _ := fw.Guard(func() { a1, err = lisp.READ(s, nil, nil) }); p || err != nil {
			c.Count("texts_rejected", 1)
			return
		}
		n1 := canon.FromGo(a1)
		if !c06TextNoFloat(a1) || !c06IsData(n1) {
			c.Count("texts_with_float_or_nondata", 1)
			return
		}
		c.Count("texts_accepted", 1)
		pr := lisp.PRINT(a1)
		a2, err := lisp.READ(pr, nil, nil)
		if err != nil {
			// a value that READ produced but cannot denote again
			c.Violate(fw.Violation{Key: c06TextKey(n1), What: fmt.Sprintf("accepted text prints as %q which READ rejects: %v", pr, err)})
			return
		}
		if !canon.Equal(canon.FromGo(a2), n1) {
			c.Violate(fw.Violation{Key: c06TextKey(n1), What: fmt.Sprintf("READ(PRINT(READ(s))) differs: first %s, printed %q, second %s", canon.Render(n1), pr, canon.Render(canon.FromGo(a2)))})
		}
	})
}

func c06IsIdent(s string) bool {
	if s == "" {
		return false
	}
	for i, r := range s {
		ok := r == '_' || r == '*' || r == '+' || r == '/' || r == '?' || r == '!' || r == '<' || r == '>' || r == '=' || unicode.IsLetter(r) ||
			(r == '-' && (i > 0 || len(s) > 0)) || (unicode.IsDigit(r) && i > 0)
		if !ok {
			return false
		}
	}
	return true
}

// c06TextKey classifies a value that READ produced from a text but that does not survive PRINT/READ.
func c06TextKey(n1 *canon.Node) string {
	fails := func(n *canon.Node) bool { o, _, _, _ := c06RoundTrip(n, nil, false); return !o }
	leaf := c06FailingLeaf(n1, fails)
	switch leaf.K {
	case canon.Kw:
		if !c06IsIdent(leaf.S) {
			// only a string literal whose first character is U+029E can produce such a keyword
			return "text:keyword-not-a-token"
		}
	case canon.Sym:
		if leaf.S == "\uFEFF" {
			return "text:symbol-BOM"
		}
		if !c06IsIdent(leaf.S) {
			return "text:symbol-not-a-token:" + c06Key(leaf)
		}
	case canon.Str:
		return "text:" + c06StringKey(leaf.S, fails)
	}
	return "text:" + c06Key(leaf)
}

func c06RandomValue(r *rand.Rand) *canon.Node {
	o := gen.DefaultOpts()
	o.MaxDepth = 1 + r.Intn(6)
	o.MaxStr = 1 + r.Intn(10)
	switch r.Intn(6) {
	case 0: // a single random Unicode string (no NUL: listed separately so that the known finding does not mask others)
		return canon.St(stripMarkerStart(gen.HostileString(r, 12, false)))
	case 1:
		return canon.Sy(gen.Ident(r, 8))
	case 2:
		return canon.Ke(gen.Ident(r, 8))
	case 3:
		return canon.In(gen.Pick(r, []int{0, -0, 1, -1, 1<<63 - 1, -1 << 63, 1 << 32, -(1 << 32), r.Int(), -r.Int()}))
	default:
		return gen.Value(r, o, 0)
	}
}

func stripMarkerStart(s string) string {
	for strings.HasPrefix(s, canon.Marker) {
		s = s[len(canon.Marker):]
	}
	return s
}

func runC06(c *fw.Ctx) {
	env := hx.NewStdEnv()
	// (a) exhaustive strings over the 14-symbol alphabet, plain and in the two raw-printer wrappings
	maxLen := c.Pick(4, 5)
	idx := 0
	var rec func(prefix string, n int)
	rec = func(prefix string, n int) {
		if c.Mine(idx) {
			if !strings.HasPrefix(prefix, canon.Marker) {
				c06Check(c, env, fmt.Sprintf("str-%d", idx), canon.St(prefix))
				c.Distinct("shapes", prefix)
			}
			c06Check(c, env, fmt.Sprintf("strj1-%d", idx), canon.St(`{"`+prefix+`}`))
			c06Check(c, env, fmt.Sprintf("strj2-%d", idx), canon.St(`{"`+prefix+`"}`))
			c.Count("exhaustive_strings", 1)
		}
		idx++
		if n == maxLen {
			return
		}
		for _, a := range c06Alphabet {
			rec(prefix+a, n+1)
		}
	}
	rec("", 0)
	// NUL is probed separately (one deterministic family) so that its finding key is stable
	for i, s := range []string{"\x00", "a\x00b", "\x00\x00", `{"` + "\x00" + `"}`} {
		if c.Mine(i) {
			c06Check(c, env, fmt.Sprintf("nul-%d", i), canon.St(s))
		}
	}
	for i, s := range []string{`"` + canon.Marker + `#"`, `"` + canon.Marker + `a b"`, "\r\uFEFF", "(a \uFEFF)"} {
		if c.Mine(i) {
			c06Text(c, fmt.Sprintf("txtprobe-%d", i), s)
		}
	}
	// (b)-(e) random values
	r := c.Rand("values")
	for i := 0; i < c.PerShard(c.Pick(1500000, 30000000)); i++ {
		v := c06RandomValue(r)
		if i < 2 {
			c.Sample(canon.Render(v))
		}
		c06Check(c, env, fmt.Sprintf("val-%d", i), v)
		if canon.Size(v) < 12 {
			c.Distinct("shapes", canon.Render(v))
		}
	}
	// (e2) large values: many small collections / many elements / deep nesting in one value
	for i, n := range []int{100, 1000, 5000, 20000} {
		if !c.Mine(i) {
			continue
		}
		small := []*canon.Node{canon.Ve(), canon.Li(), canon.Ma(nil), canon.Ve(canon.In(1)), canon.Se("a"), canon.Li(canon.St("s"), canon.Ke("k"))}
		l := make([]*canon.Node, n)
		for k := range l {
			l[k] = small[(k+i)%len(small)]
		}
		c06Check(c, env, fmt.Sprintf("large-list-%d", n), canon.Li(l...))
		m := map[string]*canon.Node{}
		for k := 0; k < n; k++ {
			m[fmt.Sprintf("key-%d", k)] = small[k%len(small)]
		}
		c06Check(c, env, fmt.Sprintf("large-map-%d", n), canon.Ma(m))
		deep := canon.In(1)
		for k := 0; k < n && k < 2000; k++ {
			if k%2 == 0 {
				deep = canon.Li(deep)
			} else {
				deep = canon.Ve(deep, canon.In(k))
			}
		}
		c06Check(c, env, fmt.Sprintf("deep-%d", n), deep)
		c.Count("large_values", 3)
	}
	// (e3) long strings, and values that were printed in the other (plain, non-readable) mode just before: what PRINT
	// writes for a value depends on the value alone, not on what the printer did earlier
	rl := c.Rand("long-strings")
	for i := 0; i < c.PerShard(c.Pick(1600, 40000)); i++ {
		n := []int{40, 300, 511, 512, 513, 700, 1500, 5000}[rl.Intn(8)]
		var sb strings.Builder
		for sb.Len() < n {
			sb.WriteString(gen.Pick(rl, []string{"abc def ", "q\"uote ", "back\\slash ", "line\nbreak ", "tab\t", "{\"json\": 1} ", "¬raw¬ ", "semi; ", "é中 "}))
		}
		v := canon.Node{K: canon.Str, S: stripMarkerStart(sb.String())}
		var val *canon.Node = &v
		if rl.Intn(3) == 0 {
			val = canon.Ve(canon.In(1), &v, canon.Ma(map[string]*canon.Node{canon.Marker + "k": &v}))
		}
		g := canon.ToGo(val)
		// plain-mode printing first: (str v), (println-less) printer in non-readable mode through the public builtins
		fw.Guard(func() {
			q := types.List{Val: []types.MalType{types.Symbol{Val: "quote"}, g}}
			lisp.EVAL(context.Background(), types.List{Val: []types.MalType{types.Symbol{Val: "str"}, q}}, env)
			lisp.EVAL(context.Background(), types.List{Val: []types.MalType{types.Symbol{Val: "str"}, "log: ", q, q}}, env)
		})
		c06Check(c, env, fmt.Sprintf("long-after-plain-%d", i), val)
		c.Count("long_strings_after_plain_printing", 1)
	}
	// (f) accepted texts
	rt := c.Rand("texts")
	for i := 0; i < c.PerShard(c.Pick(1500000, 30000000)); i++ {
		s := c05RandomText(rt)
		if !utf8.ValidString(s) || strings.Contains(s, "\x00") {
			continue
		}
		c06Text(c, fmt.Sprintf("txt-%d", i), s)
	}
}

func init() {
	fw.Register(&fw.Property{
		ID:     "C06",
		Run:    runC06,
		Rule:   "values = every string up to the tier's length over the 14-character alphabet {a n \" \\ LF TAB ¬ ʞ { } SP ; $ CR}, each also wrapped as {\"…} and {\"…\"} to force the raw printer, plus seeded random Unicode strings, identifiers, boundary integers and nested lists/vectors/maps/sets; each is printed with PRINT and read with READ, and again through (read-string (pr-str 'v)), and compared with an independent structural comparison; accepted texts (C05's generators, valid UTF-8, no float) are checked for READ∘PRINT∘READ = READ; distinct = distinct rendered values with fewer than 12 nodes; long strings (40-5000 bytes around the 512 boundary, alone and nested) printed in plain mode (str) immediately before the round trip; identifiers with non-ASCII letters and digits",
		Assume: []string{"strings are valid UTF-8 and do not start with U+029E (such a Go string is a keyword in this implementation)", "symbols/keywords range over the scanner's identifier alphabet; names starting with $ are placeholders, not symbols", "floats excluded by the statement"},
		Finish: func(m *fw.Merged) {
			fuzzStep(m, "FuzzRoundTrip", "150000x", "8000000x")
			m.Floor("raw_printer_used", 1000)
			m.Floor("quoted_printer_used", 1000)
			m.Floor("texts_accepted", 1000)
			m.Extra["classes_inside_values"] = m.CountsWithPrefix("class.")
			m.Extra["exhaustive"] = true
		},
	})
}
