package props

import (
	"context"
	"fmt"
	"math/rand"
	"sort"
	"strings"
	"sync"
	"time"

	"github.com/jig/lisp"
	"github.com/jig/lisp/lib/call"
	"github.com/jig/lisp/types"

	"verifharness/canon"
	"verifharness/fw"
	"verifharness/hx"
)

// C10: futures run once, give every reader the same outcome, report status consistently.

type c10Op struct {
	Client   int
	Kind     string // deref done? cancelled? cancel
	Call     int64
	Ret      int64
	Val      string // rendered value / "true" / "false"
	Err      string // error text ("" when none)
	TimedOut bool   // deref ended with the caller's own deadline
}

func (o c10Op) String() string {
	r := o.Val
	if o.Err != "" {
		r = "error: " + o.Err
	}
	return fmt.Sprintf("client %d  call=%dns return=%dns  %s => %s", o.Client, o.Call, o.Ret, o.Kind, r)
}

type c10Gate struct {
	mu      sync.Mutex
	ch      chan struct{}
	openAt  int64
	ctx     context.Context
	entered chan struct{}
}

type c10World struct {
	env    types.EnvType
	tracer *hx.Tracer
	gate   *c10Gate
	t0     time.Time
	alt    bool // odd clients use the second handle g (see c10SecondHandle)
}

// c10SecondHandle binds g to whatever (with-meta f {…}) returns when that is a future, else to f itself: every way the
// language offers to obtain a future from a future denotes the same future, and the rules R1-R8 are judged over the
// operations on all handles together (seeded C10-m14: a copy whose status flags drift apart from the original's).
func (w *c10World) c10SecondHandle(c *fw.Ctx) {
	o := hx.EvalText(context.Background(), "(def g (let (h (try (with-meta f {:handle 2}) (catch e f))) (if (future? h) h f)))", w.env)
	if o.Err != nil || o.Panicked {
		return
	}
	w.alt = true
	f, _ := w.env.Get(types.Symbol{Val: "f"})
	if g, _ := w.env.Get(types.Symbol{Val: "g"}); g != f {
		c.Count("futures_with_a_distinct_second_handle", 1)
	} else {
		c.Count("futures_whose_second_handle_is_the_first", 1)
	}
}

func c10NewWorld() *c10World {
	w := &c10World{env: hx.NewStdEnv(), tracer: &hx.Tracer{}, t0: time.Now()}
	hx.InstallTrace(w.env, w.tracer)
	w.gate = &c10Gate{ch: make(chan struct{}), entered: make(chan struct{})}
	g := w.gate
	// (gate!) blocks until the harness opens the gate, ignoring cancellation, then returns 42
	call.CallOverrideFN(w.env, "gate!", func(ctx context.Context) (types.MalType, error) {
		g.mu.Lock()
		g.ctx = ctx
		select {
		case <-g.entered:
		default:
			close(g.entered)
		}
		g.mu.Unlock()
		<-g.ch
		return 42, nil
	})
	return w
}

func (w *c10World) now() int64 { return time.Since(w.t0).Nanoseconds() }

func (w *c10World) openGate() {
	w.gate.mu.Lock()
	defer w.gate.mu.Unlock()
	if w.gate.openAt == 0 {
		w.gate.openAt = w.now()
		close(w.gate.ch)
	}
}

var c10Bodies = map[string]string{
	"const":  "(do (trace! :start) 42)",
	"short":  "(do (trace! :start) (sleep 1) :slept)",
	"throws": "(do (trace! :start) (throw {:err 1}))",
	"sleep":  "(do (trace! :start) (sleep 60000) (trace! :end) :woke)",
	"gate":   "(do (trace! :start) (gate!))",
}

func (w *c10World) do(client int, kind string, deadline time.Duration) c10Op {
	src := map[string]string{"deref": "@f", "done?": "(future-done? f)", "cancelled?": "(future-cancelled? f)", "cancel": "(future-cancel f)"}[kind]
	if w.alt && client%2 == 1 {
		src = map[string]string{"deref": "@g", "done?": "(future-done? g)", "cancelled?": "(future-cancelled? g)", "cancel": "(future-cancel g)"}[kind]
	}
	ast, err := lisp.READ(src, nil, w.env)
	if err != nil {
		panic(err)
	}
	ctx, cancel := context.WithTimeout(context.Background(), deadline)
	defer cancel()
	op := c10Op{Client: client, Kind: kind}
	op.Call = w.now()
	o := hx.Eval(ctx, ast, w.env)
	op.Ret = w.now()
	switch {
	case o.Panicked:
		op.Err = "PANIC: " + o.PanicMsg
	case o.Err != nil:
		op.Err = o.Err.Error()
		// a timeout error obtained after the caller's own deadline has passed is the caller's, not the future's outcome
		// (EVAL may notice the deadline before or inside the deref builtin, with different messages)
		if kind == "deref" && (strings.Contains(op.Err, "timeout while dereferencing future") || (ctx.Err() != nil && hx.IsTimeoutText(op.Err))) {
			op.TimedOut = true
		}
	default:
		op.Val = canon.Render(canon.FromGo(o.Val))
	}
	return op
}

// c10Check applies the rules R1-R7 to one history.
func c10Check(ops []c10Op, bodyKind string, starts int, gateOpen int64, bodyStartSeen int64) (key, what string) {
	sort.Slice(ops, func(i, j int) bool { return ops[i].Call < ops[j].Call })
	for _, o := range ops {
		if strings.HasPrefix(o.Err, "PANIC") {
			return "panic", o.String()
		}
	}
	// R1: the body runs once; a future cancelled before its thread started evaluating may not run at all
	cancelledOK := false
	for _, o := range ops {
		if o.Kind == "cancel" && o.Val == "true" {
			cancelledOK = true
		}
	}
	if starts > 1 || (starts == 0 && !cancelledOK) {
		return "R1:body-runs", fmt.Sprintf("the body was evaluated %d times", starts)
	}
	// R2: derefs that returned an outcome agree
	var first *c10Op
	for i := range ops {
		o := &ops[i]
		if o.Kind != "deref" || o.TimedOut {
			continue
		}
		if first == nil {
			first = o
			continue
		}
		same := (o.Err == "" && first.Err == "" && o.Val == first.Val) || (o.Err != "" && first.Err != "" && c10ErrCore(o.Err) == c10ErrCore(first.Err))
		if !same {
			return "R2:deref-disagree", fmt.Sprintf("two derefs disagree: [%s] vs [%s]", first, o)
		}
	}
	// R3: status predicates never go back from true to false (real-time order)
	for _, k := range []string{"done?", "cancelled?"} {
		for i := range ops {
			if ops[i].Kind != k || ops[i].Val != "true" {
				continue
			}
			for j := range ops {
				if ops[j].Kind == k && ops[j].Val == "false" && ops[j].Call > ops[i].Ret {
					return "R3:" + k + "-went-back", fmt.Sprintf("[%s] returned true, later [%s] returned false", ops[i], ops[j])
				}
			}
		}
	}
	// R4: done? true as soon as any deref has returned an outcome
	for i := range ops {
		if ops[i].Kind != "deref" || ops[i].TimedOut {
			continue
		}
		for j := range ops {
			if ops[j].Kind == "done?" && ops[j].Val == "false" && ops[j].Call > ops[i].Ret {
				return "R4:done-false-after-deref", fmt.Sprintf("[%s] returned, later [%s]", ops[i], ops[j])
			}
		}
	}
	// R5: no successful cancel / cancelled?=true after a deref returned a normally computed value,
	// unless a successful cancel was already under way before that deref returned
	var T int64 = -1 // earliest call of an operation reporting "cancelled"
	for _, o := range ops {
		if (o.Kind == "cancel" || o.Kind == "cancelled?") && o.Val == "true" {
			if T < 0 || o.Call < T {
				T = o.Call
			}
		}
	}
	if T >= 0 {
		for _, o := range ops {
			if o.Kind == "deref" && !o.TimedOut && o.Err == "" && o.Ret < T {
				var culprit c10Op
				for _, x := range ops {
					if (x.Kind == "cancel" || x.Kind == "cancelled?") && x.Val == "true" && x.Call == T {
						culprit = x
					}
				}
				return "R5:cancel-after-completion", fmt.Sprintf("[%s] had returned a normally computed value, later [%s]", o, culprit)
			}
		}
	}
	// R5b: a cancel that returned false changes nothing: cancelled? must not be true afterwards unless some cancel returned true
	anyTrueCancel := false
	for _, o := range ops {
		if o.Kind == "cancel" && o.Val == "true" {
			anyTrueCancel = true
		}
	}
	if !anyTrueCancel {
		for _, o := range ops {
			if o.Kind == "cancelled?" && o.Val == "true" {
				return "R5:cancelled-without-cancel", fmt.Sprintf("[%s] although no future-cancel returned true", o)
			}
		}
	}
	// R6: cancel on a body known to be still running returns true and sticks
	if bodyKind == "sleep" || bodyKind == "gate" {
		for _, o := range ops {
			if o.Kind != "cancel" || o.Err != "" {
				continue
			}
			running := bodyStartSeen > 0 && o.Call > bodyStartSeen && (bodyKind == "sleep" || gateOpen == 0 || o.Ret < gateOpen)
			if running && o.Val != "true" {
				return "R6:cancel-refused-while-running", fmt.Sprintf("[%s] although the body was still blocked", o)
			}
			if o.Val == "true" {
				for _, x := range ops {
					if x.Kind == "cancelled?" && x.Call > o.Ret && x.Val != "true" {
						return "R6:cancelled-not-sticky", fmt.Sprintf("[%s] succeeded, later [%s]", o, x)
					}
					if x.Kind == "done?" && x.Call > o.Ret && x.Val != "true" {
						return "R6:done-false-after-cancel", fmt.Sprintf("[%s] succeeded, later [%s]", o, x)
					}
				}
			}
		}
	}
	// status ops must never fail
	for _, o := range ops {
		if o.Kind != "deref" && o.Err != "" {
			return "status-op-error", o.String()
		}
	}
	return "", ""
}

// c10ErrCore strips positions from an error text.
func c10ErrCore(s string) string {
	if i := strings.LastIndex(s, ": "); i >= 0 && strings.Contains(s[:i], "§") {
		return s[i+2:]
	}
	return s
}

func c10HistoryText(body string, ops []c10Op) string {
	var sb strings.Builder
	sb.WriteString("(def f (future " + body + "))\n")
	sort.Slice(ops, func(i, j int) bool { return ops[i].Call < ops[j].Call })
	for _, o := range ops {
		sb.WriteString(o.String() + "\n")
	}
	return sb.String()
}

func (w *c10World) startCount() int {
	n := 0
	for _, e := range w.tracer.Snapshot() {
		if e.K == canon.Kw && e.S == "start" {
			n++
		}
	}
	return n
}

// c10Random: random observers around a future.
func c10Random(c *fw.Ctx, r *rand.Rand, id string) {
	kinds := []string{"const", "short", "throws", "sleep", "gate"}
	bk := kinds[r.Intn(len(kinds))]
	body := c10Bodies[bk]
	c.Case(id, "future "+body, func() {
		w := c10NewWorld()
		creatorCtx := context.Background()
		var endCreator context.CancelFunc
		if (bk == "const" || bk == "short" || bk == "throws") && r.Intn(2) == 0 {
			// the evaluation that creates the future runs under its own context (a per-request context), which the host
			// ends once the future has completed: a completed future's status has nothing to do with that
			creatorCtx, endCreator = context.WithTimeout(context.Background(), time.Minute)
		}
		if o := hx.EvalText(creatorCtx, "(def f (future "+body+"))", w.env); o.Err != nil || o.Panicked {
			panic(fmt.Sprint(o.Err, o.PanicMsg))
		}
		w.c10SecondHandle(c)
		if endCreator != nil {
			hx.EvalText(context.Background(), "(try @f (catch e :thrown))", w.env)
			endCreator()
			c.Count("futures_whose_creating_context_ended_after_completion", 1)
		}
		created := w.now()
		nObs := 2 + r.Intn(7)
		type plan struct {
			kinds  []string
			delays []time.Duration
		}
		plans := make([]plan, nObs)
		for i := range plans {
			n := 3 + r.Intn(6)
			for k := 0; k < n; k++ {
				plans[i].kinds = append(plans[i].kinds, []string{"deref", "deref", "done?", "done?", "cancelled?", "cancelled?", "cancel"}[r.Intn(7)])
				plans[i].delays = append(plans[i].delays, time.Duration(r.Intn(300))*time.Microsecond)
			}
		}
		gateDelay := time.Duration(r.Intn(3000)) * time.Microsecond
		var mu sync.Mutex
		var ops []c10Op
		var wg sync.WaitGroup
		for ci := range plans {
			wg.Add(1)
			go func(ci int) {
				defer wg.Done()
				for k, kind := range plans[ci].kinds {
					time.Sleep(plans[ci].delays[k])
					dl := 10 * time.Second
					if kind == "deref" && (bk == "sleep" || bk == "gate") {
						dl = 3 * time.Millisecond // may legitimately end with the caller's deadline
					}
					op := w.do(ci, kind, dl)
					mu.Lock()
					ops = append(ops, op)
					mu.Unlock()
				}
			}(ci)
		}
		if bk == "gate" {
			go func() { time.Sleep(gateDelay); w.openGate() }()
		}
		done := make(chan struct{})
		go func() { wg.Wait(); close(done) }()
		if !waitOrTimeout(done, 60*time.Second) {
			c.Violate(fw.Violation{Key: "R7:blocked", What: "a future operation did not return within 60 s", Input: c10HistoryText(body, ops), Detail: fw.GoroutineDump()})
			c.Runaway()
			w.openGate()
			return
		}
		w.openGate()
		// body start must have been observed by now (bounded wait)
		var startSeen int64
		for i := 0; i < 2000 && w.startCount() == 0; i++ {
			time.Sleep(time.Millisecond)
		}
		if w.startCount() > 0 {
			startSeen = created // the trace does not carry a timestamp; creation time is a safe lower bound only for ordering after it
		}
		// closing operations: cancel a still sleeping body so that it ends, then a final deref and status reads
		if bk == "sleep" {
			ops = append(ops, w.do(99, "cancel", 10*time.Second))
		}
		fin := w.do(99, "deref", 20*time.Second)
		ops = append(ops, fin, w.do(99, "done?", 10*time.Second), w.do(99, "cancelled?", 10*time.Second), w.do(99, "deref", 20*time.Second))
		if fin.TimedOut {
			c.Violate(fw.Violation{Key: "R7:deref-blocks-after-delivery", What: "the final deref did not obtain the outcome within 20 s although the body had finished or been cancelled", Input: c10HistoryText(body, ops), Detail: fw.GoroutineDump()})
			return
		}
		c.Count("futures", 1)
		c.Count("operations", len(ops))
		c.Count("body."+bk, 1)
		// the body's start time is unknown from the trace; for R6 use the gate/sleep entry: a cancel is "known running"
		// only when it was called after the gate builtin was entered (gate) or after the start marker was seen
		bodyStart := int64(0)
		if bk == "gate" {
			select {
			case <-w.gate.entered:
				bodyStart = 1
			default:
			}
		}
		_ = startSeen
		// R6 for gate bodies needs the time the gate builtin was entered; we approximate conservatively by only
		// judging cancels issued by the closing sequence or after every observer saw done?=false … (handled in parked scenarios)
		key, what := c10Check(ops, bk, w.startCount(), w.gate.openAt, 0*bodyStart)
		c.Count("rule_evaluations", 7)
		overlap := 0
		for i := range ops {
			for j := range ops {
				if i != j && ops[i].Call < ops[j].Ret && ops[j].Call < ops[i].Ret {
					overlap++
					break
				}
			}
		}
		c.Count("overlapping_operations", overlap)
		var sh strings.Builder
		sh.WriteString(bk)
		sort.Slice(ops, func(i, j int) bool { return ops[i].Call < ops[j].Call })
		for _, o := range ops {
			sh.WriteString("|" + o.Kind + ":" + o.Val + fmt.Sprint(o.Err != ""))
		}
		c.Distinct("shapes", sh.String())
		if key != "" {
			c.Violate(fw.Violation{Key: key, What: what, Input: c10HistoryText(body, ops)})
		}
		if c.Shard == 0 && strings.HasSuffix(id, "-0") {
			c.Sample(strings.Split(c10HistoryText(body, ops), "\n"))
		}
	})
}

// c10Parked: deterministic windows.
func c10Parked(c *fw.Ctx, id string, scenario string) {
	c.Case(id, "parked scenario "+scenario, func() {
		w := c10NewWorld()
		var ops []c10Op
		add := func(o c10Op) c10Op { ops = append(ops, o); return o }
		bodyKind := "const"
		body := c10Bodies["const"]
		viol := func(key, what string) {
			c.Violate(fw.Violation{Key: key + "(parked:" + scenario + ")", What: what, Input: c10HistoryText(body, ops)})
		}
		switch scenario {
		case "body.mid":
			// the body goroutine is parked between publishing "done" and delivering the outcome
			arrived, release := hooks.park("future.body.mid", nil)
			hx.EvalText(context.Background(), "(def f (future "+body+"))", w.env)
			if !waitOrTimeout(arrived, 10*time.Second) {
				release()
				c.Count("park_missed", 1)
				return
			}
			// probes while parked
			d1 := add(w.do(1, "deref", 30*time.Millisecond)) // either blocks (times out) or returns the value
			add(w.do(1, "done?", time.Second))
			cn := add(w.do(2, "cancel", time.Second))
			add(w.do(2, "cancelled?", time.Second))
			add(w.do(2, "done?", time.Second))
			release()
			add(w.do(3, "deref", 20*time.Second))
			add(w.do(3, "done?", time.Second))
			add(w.do(3, "cancelled?", time.Second))
			add(w.do(3, "cancel", time.Second))
			add(w.do(3, "deref", 20*time.Second))
			_ = d1
			_ = cn
		case "body.delivered":
			// the outcome has been delivered and the body goroutine is parked right after: every status must already be final
			arrived, release := hooks.park("future.body.delivered", nil)
			hx.EvalText(context.Background(), "(def f (future "+body+"))", w.env)
			if !waitOrTimeout(arrived, 10*time.Second) {
				release()
				c.Count("park_missed", 1)
				return
			}
			add(w.do(1, "deref", 20*time.Second))
			add(w.do(1, "done?", time.Second))
			add(w.do(2, "cancel", time.Second))
			add(w.do(2, "cancelled?", time.Second))
			add(w.do(2, "done?", time.Second))
			add(w.do(2, "deref", 20*time.Second))
			release()
			add(w.do(3, "deref", 20*time.Second))
			add(w.do(3, "done?", time.Second))
			add(w.do(3, "cancelled?", time.Second))
		case "inner-future":
			// the body starts another future and completes; a (refused) cancel of the completed outer future must change
			// nothing: the inner future, whose context derives from the body's, keeps running and delivers its value
			body = "(do (trace! :start) (reset! box (future (do (sleep 15) :inner-value))) :outer-value)"
			hx.EvalText(context.Background(), "(def box (atom nil))", w.env)
			hx.EvalText(context.Background(), "(def f (future "+body+"))", w.env)
			d := add(w.do(1, "deref", 20*time.Second))
			cn := add(w.do(2, "cancel", time.Second))
			add(w.do(2, "cancelled?", time.Second))
			inner := hx.EvalText(context.Background(), "(try @@box (catch e (list :inner-failed (str e))))", w.env)
			got := canon.Render(canon.FromGo(inner.Val))
			if d.Val == ":outer-value" && cn.Val == "false" && got != ":inner-value" {
				viol("R5:refused-cancel-changed-something", "future-cancel on the completed outer future returned false but the inner future started by its body ended with "+got)
				return
			}
			add(w.do(3, "deref", 20*time.Second))
		case "body.end":
			// the body has finished evaluating but has published nothing yet: still "running" for observers
			arrived, release := hooks.park("future.body.end", nil)
			hx.EvalText(context.Background(), "(def f (future "+body+"))", w.env)
			if !waitOrTimeout(arrived, 10*time.Second) {
				release()
				c.Count("park_missed", 1)
				return
			}
			add(w.do(1, "done?", time.Second))
			add(w.do(1, "cancelled?", time.Second))
			add(w.do(1, "deref", 20*time.Millisecond))
			release()
			add(w.do(3, "deref", 20*time.Second))
			add(w.do(3, "done?", time.Second))
			add(w.do(3, "cancel", time.Second))
			add(w.do(3, "cancelled?", time.Second))
		case "cancel.mid":
			// a cancel is parked at its entry while the body completes and a deref returns; its effective
			// invocation is the release
			hx.EvalText(context.Background(), "(def f (future "+body+"))", w.env)
			arrived, release := hooks.park("future.cancel.mid", nil)
			res := make(chan c10Op, 1)
			go func() { res <- w.do(2, "cancel", 20*time.Second) }()
			if !waitOrTimeout(arrived, 10*time.Second) {
				release()
				<-res
				c.Count("park_missed", 1)
				return
			}
			add(w.do(1, "deref", 20*time.Second)) // completes normally
			add(w.do(1, "done?", time.Second))
			relAt := w.now()
			release()
			cn := <-res
			cn.Call = relAt // the parked cancel had no effect before it was released (hook at entry)
			add(cn)
			add(w.do(3, "cancelled?", time.Second))
			add(w.do(3, "deref", 20*time.Second))
		case "deref.mid":
			// a deref is parked after taking the outcome and before re-depositing it
			hx.EvalText(context.Background(), "(def f (future "+body+"))", w.env)
			arrived, release := hooks.park("future.deref.mid", nil)
			res := make(chan c10Op, 1)
			go func() { res <- w.do(1, "deref", 20*time.Second) }()
			if !waitOrTimeout(arrived, 10*time.Second) {
				release()
				<-res
				c.Count("park_missed", 1)
				return
			}
			res2 := make(chan c10Op, 1)
			go func() { res2 <- w.do(2, "deref", 20*time.Second) }()
			add(w.do(3, "done?", time.Second))
			add(w.do(3, "cancel", time.Second))
			add(w.do(3, "cancelled?", time.Second))
			time.Sleep(2 * time.Millisecond)
			release()
			add(<-res)
			d2 := <-res2
			add(d2)
			if d2.TimedOut {
				viol("R7:second-deref-blocked", "a second deref never obtained the outcome after the first one re-deposited it")
				return
			}
		case "cancel-running-sleep", "cancel-running-gate":
			bodyKind = "sleep"
			if scenario == "cancel-running-gate" {
				bodyKind = "gate"
			}
			body = c10Bodies[bodyKind]
			hx.EvalText(context.Background(), "(def f (future "+body+"))", w.env)
			// wait until the body is known to be blocked
			if bodyKind == "gate" {
				if !waitOrTimeout(w.gate.entered, 10*time.Second) {
					c.Count("park_missed", 1)
					return
				}
			} else {
				for i := 0; i < 5000 && w.startCount() == 0; i++ {
					time.Sleep(200 * time.Microsecond)
				}
				time.Sleep(2 * time.Millisecond)
			}
			running := w.now()
			add(w.do(1, "done?", time.Second))
			add(w.do(1, "cancelled?", time.Second))
			cn := add(w.do(2, "cancel", time.Second))
			add(w.do(2, "cancelled?", time.Second))
			add(w.do(2, "done?", time.Second))
			add(w.do(2, "cancel", time.Second))
			if cn.Val != "true" {
				viol("R6:cancel-refused-while-running", "future-cancel on a body still blocked returned "+cn.Val+cn.Err)
				w.openGate()
				return
			}
			// a deref issued now (the body is still blocked) must end with its own caller's deadline
			if bodyKind == "gate" {
				t1 := time.Now()
				var dd c10Op
				if !fw.WithTimeout(5*time.Second, func() { dd = w.do(2, "deref", 30*time.Millisecond) }) {
					viol("R7:deref-ignores-caller-context", "a deref with a 30 ms deadline on a cancelled future whose body is still blocked had not returned after 5 s")
					w.openGate()
					return
				}
				if el := time.Since(t1); el > 3*time.Second || !dd.TimedOut {
					viol("R7:deref-ignores-caller-context", fmt.Sprintf("a deref with a 30 ms deadline on a cancelled future whose body is still blocked took %v and returned %s", el, dd))
					w.openGate()
					return
				}
			}
			// the body's context must be cancelled
			if bodyKind == "gate" {
				ok := false
				for i := 0; i < 2000; i++ {
					w.gate.mu.Lock()
					gctx := w.gate.ctx
					w.gate.mu.Unlock()
					if gctx != nil && gctx.Err() != nil {
						ok = true
						break
					}
					time.Sleep(time.Millisecond)
				}
				if !ok {
					viol("R6:body-context-not-cancelled", "after a successful future-cancel the context seen by the body's builtin is not cancelled")
					w.openGate()
					return
				}
				w.openGate()
				add(w.do(3, "deref", 20*time.Second)) // the body ignored cancellation and completes with 42
			} else {
				d := add(w.do(3, "deref", 20*time.Second)) // the sleep must end promptly with an error
				if d.TimedOut || d.Err == "" {
					viol("R6:body-context-not-cancelled", "after a successful future-cancel the sleeping body did not end: "+d.String())
					return
				}
			}
			add(w.do(3, "cancelled?", time.Second))
			add(w.do(3, "done?", time.Second))
			add(w.do(3, "deref", 20*time.Second))
			_ = running
		}
		w.openGate()
		for i := 0; i < 2000 && w.startCount() == 0; i++ {
			time.Sleep(time.Millisecond)
		}
		c.Count("parked."+scenario, 1)
		c.Count("operations", len(ops))
		key, what := c10Check(ops, bodyKind, w.startCount(), w.gate.openAt, 1)
		if key != "" {
			viol(key, what)
		}
		var sh strings.Builder
		sh.WriteString(scenario)
		for _, o := range ops {
			sh.WriteString("|" + o.Kind + ":" + o.Val + fmt.Sprint(o.Err != ""))
		}
		c.Distinct("shapes", sh.String())
	})
}

// c10Chain: a chain of futures each of which derefs the next one it started: every body runs exactly once and the
// outermost deref returns, however many futures are running at the same time.
func c10Chain(c *fw.Ctx, id string, depth int) {
	c.Case(id, fmt.Sprintf("chain of %d nested futures", depth), func() {
		w := c10NewWorld()
		src := fmt.Sprintf("(do (def runs (atom 0)) (def chain (fn (n) (do (swap! runs inc) (if (< n 1) 0 (+ 1 @(future (chain (- n 1)))))))) (list (chain %d) @runs))", depth)
		var o hx.Outcome
		ctx, cancel := context.WithTimeout(context.Background(), 40*time.Second)
		defer cancel()
		ok := fw.WithTimeout(60*time.Second, func() { o = hx.EvalText(ctx, src, w.env) })
		c.Count("future_chains", 1)
		c.Max("max_future_chain_depth", int64(depth))
		if !ok {
			c.Violate(fw.Violation{Key: "R7:blocked-chain", What: "a chain of nested futures did not finish within 60 s", Detail: fw.GoroutineDump()})
			c.Runaway()
			return
		}
		want := canon.Li(canon.In(depth), canon.In(depth+1))
		if o.Panicked || o.Err != nil || !canon.Equal(canon.FromGo(o.Val), want) {
			c.Violate(fw.Violation{Key: "R1:chain", What: fmt.Sprintf("a chain of %d futures, each dereferencing the next, must give %s (depth, body runs); got %v err %v %s", depth, canon.Render(want), o.Val, o.Err, o.PanicMsg)})
		}
	})
}

// c10CancelRace: two simultaneous future-cancel calls on a running future whose context has hundreds of derived
// contexts (the body started 300 inner futures), with a third thread polling the status: each cancel of a running
// future returns true, and once future-done? has been seen true on this never-completing future, future-cancelled? is
// true as well.
func c10CancelRace(c *fw.Ctx, id string) {
	c.Case(id, "two simultaneous cancels of a running future with 300 derived contexts", func() {
		w := c10NewWorld()
		if o := hx.EvalText(context.Background(), "(def f (future (do (def inner (map (fn (i) (future (sleep 60000))) (range 0 300))) (trace! :start) (sleep 60000))))", w.env); o.Err != nil || o.Panicked {
			panic(fmt.Sprint(o.Err, o.PanicMsg))
		}
		for i := 0; i < 10000 && w.tracer.Len() == 0; i++ {
			time.Sleep(time.Millisecond)
		}
		if w.tracer.Len() == 0 {
			c.Count("cancel_race_body_not_started", 1)
			return
		}
		start := make(chan struct{})
		var wg sync.WaitGroup
		res := make([]c10Op, 2)
		for i := 0; i < 2; i++ {
			wg.Add(1)
			go func(i int) { defer wg.Done(); <-start; res[i] = w.do(i, "cancel", 20*time.Second) }(i)
		}
		stop := make(chan struct{})
		var bad string
		var pwg sync.WaitGroup
		pwg.Add(1)
		go func() {
			defer pwg.Done()
			<-start
			for {
				select {
				case <-stop:
					return
				default:
				}
				d := w.do(2, "done?", 5*time.Second)
				cn := w.do(2, "cancelled?", 5*time.Second)
				if d.Val == "true" && cn.Val == "false" && bad == "" {
					bad = fmt.Sprintf("%s then %s", d.String(), cn.String())
				}
			}
		}()
		close(start)
		wg.Wait()
		close(stop)
		pwg.Wait()
		c.Count("cancel_race_scenarios", 1)
		for i := range res {
			if res[i].Val != "true" {
				c.Violate(fw.Violation{Key: "R6:concurrent-cancel-of-running-future-refused", What: fmt.Sprintf("two threads cancelled a running future at the same moment; one was answered %s %s (both must be true: the future was running, and is cancelled from then on)", res[i].Val, res[i].Err)})
				return
			}
		}
		if bad != "" {
			c.Violate(fw.Violation{Key: "R6:done-but-not-cancelled-while-running", What: "a future whose body never completes was seen done and, afterwards, not cancelled: " + bad})
			return
		}
		if fin := w.do(3, "cancelled?", 5*time.Second); fin.Val != "true" {
			c.Violate(fw.Violation{Key: "R6:not-cancelled-after-cancel", What: "future-cancelled? after both cancels returned: " + fin.String()})
		}
	})
}

func runC10(c *fw.Ctx) {
	h := installHooks(uint64(c.Seed)*7919 + uint64(c.Shard))
	h.jitter.Store(true)
	r := c.Rand("futures")
	for i := 0; i < c.PerShard(c.Pick(800, 24000)); i++ {
		c10Random(c, r, fmt.Sprintf("fut-%d", i))
	}
	scen := []string{"body.mid", "body.delivered", "inner-future", "body.end", "cancel.mid", "deref.mid", "cancel-running-sleep", "cancel-running-gate"}
	for i := 0; i < c.PerShard(c.Pick(336, 8000)); i++ {
		c10Parked(c, fmt.Sprintf("parked-%d", i), scen[(i*c.NShards+c.Shard)%len(scen)])
	}
	for i := 0; i < c.PerShard(c.Pick(160, 1600)); i++ {
		c10CancelRace(c, fmt.Sprintf("cancel-race-%d", i))
	}
	h.jitter.Store(false)
	for i := 0; i < c.PerShard(c.Pick(32, 320)); i++ {
		c10Chain(c, fmt.Sprintf("chain-%d", i), []int{10, 150, 400, 1000}[(i+c.Shard)%4])
	}
	h.jitter.Store(true)
	for k, v := range h.hitCounts() {
		c.Count("hook_hits."+k, int(v))
	}
}

func init() {
	fw.Register(&fw.Property{
		ID:   "C10",
		Race: true,
		Run:  runC10,
		TimeoutS: func(tier string) int {
			if tier == "thorough" {
				return 2400
			}
			return 300
		},
		Rule:   "seeded histories around one future (bodies: constant, short sleep, throwing, 60 s sleep, a gate builtin that ignores cancellation) with 2-8 Go observer clients issuing random deref / future-done? / future-cancelled? / future-cancel sequences before, during and after completion, recorded at the EVAL boundary and checked against rules R1-R7 (body runs once, derefs agree, status never goes back, done? after any deref, no successful cancel after a normal completion, cancel of a running body succeeds, sticks and cancels the body's context, no deref blocks after delivery); deterministic windows by parking goroutines at the verif hook sites (body between flag and delivery, body finished but unpublished, cancel at entry while the body completes, deref between take and re-deposit, cancel of a body blocked in sleep / in a cancellation-ignoring builtin); all under the race detector; distinct = distinct (body kind, ordered operation/result) shapes; half of the completing futures are created by an evaluation whose own context is ended after completion; chains of 10-1000 nested futures each dereferencing the next (value and number of body runs)",
		Assume: []string{"real-time order = return-before-call on one monotonic clock at the client boundary", "which of two overlapping events (completion vs cancel) wins is not prescribed", "a deref that ends with its own caller's deadline is not an outcome"},
		Finish: func(m *fw.Merged) {
			m.Floor("futures", 100)
			for _, s := range []string{"body.mid", "body.delivered", "body.end", "cancel.mid", "deref.mid", "cancel-running-sleep", "cancel-running-gate"} {
				m.Floor("parked."+s, 5)
			}
			m.Floor("hook_hits.future.body.mid", 100)
			m.Extra["hook_site_hits"] = m.CountsWithPrefix("hook_hits.")
			m.Extra["parked_scenarios"] = m.CountsWithPrefix("parked.")
			m.Extra["bodies"] = m.CountsWithPrefix("body.")
		},
	})
}
