package hx

import (
	"context"
	"regexp"
	"strings"
	"sync"
	"time"

	"github.com/jig/lisp/types"
)

// Calibration of the error classifier.
//
// The properties speak of "an error", "a timeout error", "an unbound symbol": they do not fix the wording of the
// interpreter's messages, so a rewording must not raise an alarm. Classify therefore recognises the wording found in
// the tree at the pinned commit AND the wording the tree under test actually uses, learned once per process from
// fixed probe programs whose class is beyond doubt (a bare unknown symbol, (1 2), a one-parameter function called
// with none and with two arguments, a trivial program under an already cancelled context, a deref that outlives its
// caller's deadline). A probe that does not fail, or whose message is too short to be a safe pattern, teaches nothing.
type calibration struct {
	unbound     []*regexp.Regexp // with one capturing group for the name when the message names the symbol
	notCallable []string
	arity       []string
	timeout     []string
}

var (
	calibOnce sync.Once
	calib     calibration
)

var posPrefixRE = regexp.MustCompile(`^§[^ ]*: `)

// stripPos removes a leading position ("§1…1,7…13: ").
func stripPos(m string) string { return posPrefixRE.ReplaceAllString(m, "") }

func probeMsg(ctx context.Context, src string) string {
	defer func() { recover() }()
	o := EvalText(ctx, src, NewStdEnv())
	if o.Panicked || o.Err == nil {
		return ""
	}
	if _, thrown := ErrorValue(o.Err); thrown {
		return ""
	}
	return ErrorCore(o.Err)
}

// ErrorCore is the message of the innermost error an interpreter error carries: interpreter errors wrap the Go error
// they report (ErrorValue) and prefix its text with a source position whose notation is not fixed by any property;
// the wrapped error's own text has no such prefix. Falls back to the text with a leading §-position removed.
func ErrorCore(err error) string {
	for i := 0; i < 8 && err != nil; i++ {
		ev, ok := err.(interface{ ErrorValue() types.MalType })
		if !ok {
			break
		}
		inner, isErr := ev.ErrorValue().(error)
		if !isErr || inner == nil {
			break
		}
		err = inner
	}
	if err == nil {
		return ""
	}
	msg := err.Error()
	// an error that reports its own position prefixes its text with that position, in whatever notation this tree uses
	if pe, ok := err.(interface{ Position() *types.Position }); ok {
		if p := pe.Position(); p != nil {
			msg = strings.TrimPrefix(msg, p.String()+": ")
		}
	}
	return stripPos(msg)
}

func commonPrefix(a, b string) string {
	n := 0
	for n < len(a) && n < len(b) && a[n] == b[n] {
		n++
	}
	return a[:n]
}

func calibrate() {
	bg := context.Background()
	// unbound symbols
	names := []string{"vq-unbound-aa1", "zk-unbound-bb2"}
	var pats []*regexp.Regexp
	for _, n := range names {
		m := probeMsg(bg, n)
		if m == "" {
			continue
		}
		if i := strings.Index(m, n); i >= 0 {
			pre, suf := m[:i], m[i+len(n):]
			if len(pre)+len(suf) >= 6 {
				hole := `(.+?)`
				if suf == "" {
					hole = `(\S+)`
				}
				pats = append(pats, regexp.MustCompile(regexp.QuoteMeta(pre)+hole+regexp.QuoteMeta(suf)))
			}
		} else if len(m) >= 8 {
			pats = append(pats, regexp.MustCompile(regexp.QuoteMeta(m)))
		}
	}
	if len(pats) == 2 && pats[0].String() == pats[1].String() {
		calib.unbound = pats[:1]
	}
	// not callable
	a, b := probeMsg(bg, "(1 2)"), probeMsg(bg, `("s" 1)`)
	if p := strings.TrimRight(commonPrefix(a, b), " ("); len(p) >= 8 {
		calib.notCallable = []string{p}
	}
	// arity: the message up to its first digit
	for _, pr := range [][2]string{{"((fn (a) a))", "((fn (a b c) a) 1)"}, {"((fn (a) a) 1 2)", "((fn () 1) 1 2 3)"}} {
		a, b := probeMsg(bg, pr[0]), probeMsg(bg, pr[1])
		p := commonPrefix(a, b)
		if i := strings.IndexAny(p, "0123456789"); i >= 0 {
			p = p[:i]
		}
		if p = strings.TrimRight(p, " ("); len(p) >= 8 {
			calib.arity = append(calib.arity, p)
		}
	}
	// timeouts
	ctx, cancel := context.WithCancel(bg)
	cancel()
	for _, src := range []string{"(do 1 2)", "(sleep 1000)"} {
		if m := probeMsg(ctx, src); len(m) >= 8 {
			calib.timeout = append(calib.timeout, m)
		}
	}
	ctx2, cancel2 := context.WithTimeout(bg, 30*time.Millisecond)
	defer cancel2()
	if m := probeMsg(ctx2, "@(future (sleep 400))"); len(m) >= 8 {
		calib.timeout = append(calib.timeout, m)
	}
}

func classifyCalibrated(msg string) (ErrClass, bool) {
	calibOnce.Do(calibrate)
	for _, re := range calib.unbound {
		if re.MatchString(msg) {
			return EUnbound, true
		}
	}
	for _, p := range calib.notCallable {
		if strings.Contains(msg, p) {
			return ENotCallable, true
		}
	}
	for _, p := range calib.arity {
		if strings.Contains(msg, p) {
			return EArity, true
		}
	}
	for _, p := range calib.timeout {
		if strings.Contains(msg, p) {
			return ETimeout, true
		}
	}
	return ENone, false
}

var defaultUnboundRE = regexp.MustCompile(`'([^']+)' not found`)

// UnboundName extracts the symbol an unbound-symbol error names; ok is false when the tree's wording does not name it.
func UnboundName(err error) (name string, ok bool) {
	if err == nil {
		return "", false
	}
	msg := err.Error()
	if m := defaultUnboundRE.FindStringSubmatch(msg); m != nil {
		return m[1], true
	}
	calibOnce.Do(calibrate)
	for _, re := range calib.unbound {
		if m := re.FindStringSubmatch(msg); m != nil && len(m) > 1 {
			return m[1], true
		}
	}
	return "", false
}

// IsTimeoutText reports whether msg carries one of the interpreter's timeout messages (pinned or calibrated wording).
func IsTimeoutText(msg string) bool {
	if strings.Contains(msg, "timeout while") {
		return true
	}
	c, ok := classifyCalibrated(msg)
	return ok && c == ETimeout
}
