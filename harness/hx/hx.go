// Package hx holds the glue between the harness and jig/lisp's public API:
// standard environments, the trace!/tick!/fail! harness builtins, guarded evaluation
// and error classification.
package hx

import (
	"context"
	"errors"
	"fmt"
	"strings"
	"sync"
	"time"

	"github.com/jig/lisp"
	"github.com/jig/lisp/env"
	"github.com/jig/lisp/lib/assert/nsassert"
	"github.com/jig/lisp/lib/concurrent/nsconcurrent"
	"github.com/jig/lisp/lib/core/nscore"
	"github.com/jig/lisp/lib/coreextented/nscoreextended"
	"github.com/jig/lisp/types"

	"verifharness/canon"
	"verifharness/fw"
)

// NewStdEnv builds the standard environment (all libraries).
func NewStdEnv() types.EnvType {
	e := env.NewEnv()
	for _, load := range []func(types.EnvType) error{
		nscore.Load, nscore.LoadInput, nscore.LoadNullArgs, nsconcurrent.Load, nscoreextended.Load, nsassert.Load,
	} {
		if err := load(e); err != nil {
			panic(fmt.Errorf("library load: %w", err))
		}
	}
	return e
}

// NewCoreEnv builds an environment with the core library only (plus concurrent, needed by gensym users).
func NewCoreEnv() types.EnvType {
	e := env.NewEnv()
	if err := nscore.Load(e); err != nil {
		panic(err)
	}
	return e
}

// Sub returns a fresh scope under base.
func Sub(base types.EnvType) types.EnvType { return env.NewSubordinateEnv(base) }

// Tracer records the ordered side effects of one evaluation.
type Tracer struct {
	mu     sync.Mutex
	Events []*canon.Node
}

func (t *Tracer) Add(s *canon.Node) {
	t.mu.Lock()
	t.Events = append(t.Events, s)
	t.mu.Unlock()
}

func (t *Tracer) Snapshot() []*canon.Node {
	t.mu.Lock()
	defer t.mu.Unlock()
	return append([]*canon.Node(nil), t.Events...)
}

func (t *Tracer) Reset() {
	t.mu.Lock()
	t.Events = nil
	t.mu.Unlock()
}

func (t *Tracer) Len() int {
	t.mu.Lock()
	defer t.mu.Unlock()
	return len(t.Events)
}

// Sentinel Go errors thrown by harness builtins.
var ErrSentinel = errors.New("verif-sentinel-error")
var ErrSentinel2 = errors.New("verif-sentinel-error-2")

func setFn(e types.EnvType, name string, f func(ctx context.Context, a []types.MalType) (types.MalType, error)) {
	e.Set(types.Symbol{Val: name}, types.Func{Fn: f})
}

// InstallTrace registers (trace! x): records the canonical form of x and returns x.
func InstallTrace(e types.EnvType, t *Tracer) {
	setFn(e, "trace!", func(_ context.Context, a []types.MalType) (types.MalType, error) {
		if len(a) != 1 {
			return nil, fmt.Errorf("trace!: wrong number of arguments (%d instead of 1)", len(a))
		}
		t.Add(canon.FromGo(a[0]))
		return a[0], nil
	})
	// (trace-then-fail! x): records x like trace!, then fails with a Go error (a builtin that has its effect and fails)
	setFn(e, "trace-then-fail!", func(_ context.Context, a []types.MalType) (types.MalType, error) {
		if len(a) != 1 {
			return nil, fmt.Errorf("trace-then-fail!: wrong number of arguments (%d instead of 1)", len(a))
		}
		t.Add(canon.FromGo(a[0]))
		return nil, ErrSentinel
	})
}

// Outcome of one guarded evaluation.
type Outcome struct {
	Val      types.MalType
	Err      error
	Panicked bool
	PanicMsg string
	Site     string
	Stack    string
	TimedOut bool // harness watchdog fired (evaluation still running)
}

// Eval evaluates ast in env under ctx with a recover sentinel.
func Eval(ctx context.Context, ast types.MalType, e types.EnvType) (o Outcome) {
	p, site, msg, st := fw.Guard(func() {
		o.Val, o.Err = lisp.EVAL(ctx, ast, e)
	})
	if p {
		o.Panicked, o.Site, o.PanicMsg, o.Stack = true, site, msg, st
	}
	return
}

// EvalText reads and evaluates.
func EvalText(ctx context.Context, src string, e types.EnvType) (o Outcome) {
	var ast types.MalType
	var rerr error
	p, site, msg, st := fw.Guard(func() { ast, rerr = lisp.READ(src, nil, e) })
	if p {
		return Outcome{Panicked: true, Site: site, PanicMsg: "READ: " + msg, Stack: st}
	}
	if rerr != nil {
		return Outcome{Err: fmt.Errorf("READ: %w", rerr)}
	}
	return Eval(ctx, ast, e)
}

// ErrClass is the coarse class of an evaluation error (message text is never compared beyond
// recognising the class).
type ErrClass string

const (
	ENone        ErrClass = ""
	EUnbound     ErrClass = "unbound"      // symbol not found
	ENotCallable ErrClass = "not-callable" // head of an application is not a function
	EArity       ErrClass = "arity"        // lisp closure called with the wrong number of arguments
	EThrown      ErrClass = "thrown"       // (throw v) with a lisp value
	ETimeout     ErrClass = "timeout"
	EBuiltin     ErrClass = "builtin" // any error raised by a builtin (type, range, arity of a Go function, Go error)
)

// ErrorValue extracts the thrown lisp value, if the error carries one that is not a Go error.
func ErrorValue(err error) (types.MalType, bool) {
	if ev, ok := err.(interface{ ErrorValue() types.MalType }); ok {
		v := ev.ErrorValue()
		if _, isErr := v.(error); !isErr {
			return v, true
		}
	}
	return nil, false
}

// Classify maps a returned error to its class.
func Classify(err error) ErrClass {
	if err == nil {
		return ENone
	}
	if v, ok := ErrorValue(err); ok {
		// a panic with a non-error payload inside a bound Go function (reflect's own type panics are
		// strings) surfaces like a thrown string: those generated by the binder are builtin errors
		if s, isStr := v.(string); isStr && strings.HasPrefix(s, "reflect:") {
			return EBuiltin
		}
		return EThrown
	}
	msg := err.Error()
	switch {
	case strings.Contains(msg, "' not found"):
		return EUnbound
	case strings.Contains(msg, "attempt to call non-function"):
		return ENotCallable
	case strings.Contains(msg, "too few arguments passed"), strings.Contains(msg, "too many arguments passed"):
		return EArity
	case strings.Contains(msg, "timeout while"):
		return ETimeout
	}
	// the wording of the tree under test, learned from probes (calib.go)
	if c, ok := classifyCalibrated(msg); ok {
		return c
	}
	return EBuiltin
}

// Canary measures scheduling lateness to qualify wall-clock observations.
type Canary struct {
	mu    sync.Mutex
	worst time.Duration
	stop  chan struct{}
}

func StartCanary() *Canary {
	c := &Canary{stop: make(chan struct{})}
	go func() {
		for {
			t0 := time.Now()
			select {
			case <-c.stop:
				return
			case <-time.After(time.Millisecond):
			}
			late := time.Since(t0) - time.Millisecond
			c.mu.Lock()
			if late > c.worst {
				c.worst = late
			}
			c.mu.Unlock()
		}
	}()
	return c
}

// Take returns and resets the worst lateness observed since the last call.
func (c *Canary) Take() time.Duration {
	c.mu.Lock()
	defer c.mu.Unlock()
	w := c.worst
	c.worst = 0
	return w
}

func (c *Canary) Stop() { close(c.stop) }
