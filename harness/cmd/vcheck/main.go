// vcheck: driver and worker of the runtime-monitoring checks (see /verif/DESIGN.md).
package main

import (
	"fmt"
	"os"

	"verifharness/fw"
	_ "verifharness/props"
)

func main() {
	if len(os.Args) < 2 {
		fmt.Println("usage: vcheck run <Cnn> <quick|thorough> | replay <file> | worker … | list")
		os.Exit(2)
	}
	switch os.Args[1] {
	case "run":
		if len(os.Args) < 4 {
			fmt.Println("usage: vcheck run <Cnn> <quick|thorough>")
			os.Exit(2)
		}
		os.Exit(fw.RunCheck(os.Args[2], os.Args[3]))
	case "replay":
		os.Exit(fw.RunReplay(os.Args[2]))
	case "worker":
		os.Exit(fw.WorkerMain(os.Args[2:]))
	case "list":
		for _, id := range fw.All() {
			fmt.Println(id)
		}
	default:
		fmt.Println("unknown subcommand", os.Args[1])
		os.Exit(2)
	}
}
