// evaltext: development aid - evaluates each argument as lisp text in one standard environment and prints the outcome.
package main

import (
	"context"
	"fmt"
	"os"

	"github.com/jig/lisp/printer"

	"verifharness/hx"
)

func main() {
	env := hx.NewStdEnv()
	for _, s := range os.Args[1:] {
		o := hx.EvalText(context.Background(), s, env)
		if o.Err != nil || o.Panicked {
			fmt.Printf("%s\n  => err=%v panicked=%v %s\n", s, o.Err, o.Panicked, o.PanicMsg)
			continue
		}
		fmt.Printf("%s\n  => %s\n", s, printer.Pr_str(o.Val, true))
	}
}
