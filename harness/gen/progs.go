package gen

import (
	"fmt"
	"math/rand"

	"verifharness/canon"
)

// Typed random program generator shared by C01, C03, C12, C17, C18, C19 and C11.

type Ty int

const (
	TInt Ty = iota
	TBool
	TList // list/vector of ints
	TAny
	TFn1 // int -> int
	TFn2 // int int -> int
)

type pvar struct {
	name string
	ty   Ty
}

// ProgOpts selects language features.
type ProgOpts struct {
	Try         bool // try/catch/finally/throw
	Macros      bool // defmacro, quasiquote, library macros
	Faults      int  // percentage of programs with one injected fault
	MaxDepth    int
	Suffix      string // appended to every global name (C11: per-thread names)
	GoErrors    bool   // harness builtins fail!/panic-err!/panic-val!
	NoLibMacros bool
}

type PG struct {
	r       *rand.Rand
	o       ProgOpts
	scope   []pvar
	globals []pvar
	nTrace  int
	nVar    int
	macros  []string // defined macro names (arity 1 or 2 recorded in name→arity)
	marity  map[string]int
	Stats   map[string]int
	fault   bool
	faultAt int
	nodes   int
}

func NewPG(r *rand.Rand, o ProgOpts) *PG {
	if o.MaxDepth == 0 {
		o.MaxDepth = 6
	}
	return &PG{r: r, o: o, marity: map[string]int{}, Stats: map[string]int{}}
}

func sy(s string) *canon.Node         { return canon.Sy(s) }
func li(l ...*canon.Node) *canon.Node { return canon.Li(l...) }
func call(f string, a ...*canon.Node) *canon.Node {
	return canon.Li(append([]*canon.Node{canon.Sy(f)}, a...)...)
}

func (g *PG) tr(e *canon.Node) *canon.Node {
	return call("trace!", e)
}

// mark returns (trace! :tN) with a fresh N.
func (g *PG) mark() *canon.Node {
	g.nTrace++
	return call("trace!", canon.Ke(fmt.Sprintf("t%d", g.nTrace)))
}

func (g *PG) fresh(prefix string) string {
	g.nVar++
	return fmt.Sprintf("%s%d", prefix, g.nVar)
}

func (g *PG) varsOf(t Ty) []pvar {
	var out []pvar
	for _, v := range g.scope {
		if v.ty == t {
			out = append(out, v)
		}
	}
	for _, v := range g.globals {
		if v.ty == t {
			out = append(out, v)
		}
	}
	return out
}

func (g *PG) varsOfGlobals(t Ty) []pvar {
	var out []pvar
	for _, v := range g.globals {
		if v.ty == t {
			out = append(out, v)
		}
	}
	return out
}

func (g *PG) with(vs []pvar, f func() *canon.Node) *canon.Node {
	n := len(g.scope)
	g.scope = append(g.scope, vs...)
	defer func() { g.scope = g.scope[:n] }()
	return f()
}

func (g *PG) stat(s string) { g.Stats[s]++ }

// Expr generates an expression of type t.
func (g *PG) Expr(t Ty, d int) *canon.Node {
	g.nodes++
	r := g.r
	if d >= g.o.MaxDepth || g.nodes > 400 {
		return g.leaf(t)
	}
	// generic wrappers available for every type
	switch r.Intn(16) {
	case 0:
		g.stat("if")
		return li(sy("if"), g.Expr(TBool, d+1), li(sy("do"), g.mark(), g.Expr(t, d+1)), li(sy("do"), g.mark(), g.Expr(t, d+1)))
	case 1:
		g.stat("let")
		return g.genLet(t, d)
	case 2:
		g.stat("do")
		n := r.Intn(3)
		l := []*canon.Node{sy("do")}
		for i := 0; i < n; i++ {
			l = append(l, g.sideEffect(d+1))
		}
		l = append(l, g.Expr(t, d+1))
		return li(l...)
	case 3:
		if t != TFn1 && t != TFn2 {
			g.stat("trace")
			return g.tr(g.Expr(t, d+1))
		}
	case 4:
		// immediately applied closure
		g.stat("iife")
		p := g.fresh("p")
		body := g.with([]pvar{{p, TInt}}, func() *canon.Node { return g.Expr(t, d+1) })
		return li(li(sy("fn"), li(sy(p)), g.mark(), body), g.Expr(TInt, d+1))
	case 5:
		if g.o.Try && r.Intn(2) == 0 {
			return g.genTry(t, d)
		}
		// immediately applied closure without parameters whose body defines something: the def binds in the
		// call's own fresh scope
		g.stat("nullary-iife-with-def")
		return li(li(sy("fn"), li(), li(sy("def"), sy("inner"+g.o.Suffix), g.Expr(TInt, d+1)), g.mark(), g.Expr(t, d+1)))
	case 6:
		if g.o.Macros && !g.o.NoLibMacros && r.Intn(2) == 0 {
			return g.genLibMacro(t, d)
		}
	case 7:
		if t == TAny {
			return g.Expr([]Ty{TInt, TBool, TList}[r.Intn(3)], d)
		}
	case 8:
		// a local shadows the name of a builtin or library function: the innermost binding wins wherever the name is used
		g.stat("shadow-builtin-name")
		nm := Pick(r, []string{"not", "list", "count", "inc", "first", "identity"})
		if r.Intn(3) == 0 {
			// ... or the name of a library macro: a local function of that name is called like any other function
			// (operands evaluated once, left to right), it is not expanded (seeded C01-m15)
			nm = Pick(r, []string{"or", "and", "cond", "->", "->>"})
			g.stat("shadow-macro-name")
		}
		repl := Pick(r, []*canon.Node{li(sy("fn"), li(sy("&"), sy("zs")), canon.Ke("shadowed")), li(sy("fn"), li(sy("z")), call("trace!", canon.Ke("shadowed-called"))), sy("vector")})
		use := Pick(r, []*canon.Node{li(sy("if"), li(sy(nm), canon.Bo(false)), canon.Ke("then"), canon.Ke("else")), li(sy(nm), canon.In(1)), li(sy("list"), li(sy(nm), canon.N()), li(sy(nm), canon.In(2))),
			li(sy(nm), g.tr(canon.In(1)), g.tr(canon.In(2)))})
		if r.Intn(2) == 0 {
			return li(sy("do"), g.tr(li(sy("let"), li(sy(nm), repl), use)), g.Expr(t, d+1))
		}
		return li(sy("do"), g.tr(li(li(sy("fn"), li(sy(nm)), use), repl)), g.Expr(t, d+1))
	case 9:
		// the head of a call is evaluated before its operands: an operand that re-defines the callee's name does not
		// change which function this call applies
		if fs := g.varsOfGlobals(TFn1); len(fs) > 0 && len(g.scope) == 0 {
			g.stat("operand-redefines-callee")
			f := Pick(r, fs).name
			return li(sy("do"), g.tr(li(sy(f), li(sy("do"), li(sy("def"), sy(f), li(sy("fn"), li(sy("zz1")), canon.Ke("redefined"))), canon.In(r.Intn(5))))), g.tr(li(sy(f), canon.In(1))), g.Expr(t, d+1))
		}
	case 12:
		if g.o.GoErrors {
			// a builtin registered as a plain Go function value (the way the library registers eval) fails or panics —
			// also with a Go runtime error — inside a try body: the nearest handler gets it, finally still runs
			g.stat("raw-builtin-failure-in-try")
			f := Pick(r, []string{"raw-panic-runtime!", "raw-panic-runtime!", "raw-panic-err!", "raw-fail!"})
			tryF := li(sy("try"), li(sy("do"), g.mark(), li(sy(f)), g.mark()), li(sy("catch"), sy("ez"), li(sy("do"), g.mark(), canon.Ke("raw-caught"))))
			switch r.Intn(3) {
			case 0:
				tryF = li(sy("try"), li(sy("do"), g.mark(), li(sy("try"), li(sy(f)), li(sy("finally"), g.mark())), g.mark()), li(sy("catch"), sy("ez"), li(sy("do"), g.mark(), canon.Ke("raw-caught"))))
			case 1:
				// the failure happens in a handler of a try that also has a finally: that finally still runs once
				tryF = li(sy("try"), li(sy("try"), li(sy("throw"), canon.In(1)), li(sy("catch"), sy("e1"), li(sy("do"), g.mark(), li(sy(f)), g.mark())), li(sy("finally"), g.mark())), li(sy("catch"), sy("ez"), li(sy("do"), g.mark(), canon.Ke("raw-caught-from-handler"))))
			}
			return li(sy("do"), g.tr(tryF), g.Expr(t, d+1))
		}
	case 11:
		// one let, one scope: a name bound twice in the same let is re-bound in place, so a closure made between the two
		// bindings sees the second value, and a closure may call a name bound later in the same let
		g.stat("let-rebinds-name")
		x, cl, later := g.fresh("x"), g.fresh("g"), g.fresh("h")
		e1, e2 := g.Expr(TInt, d+2), g.Expr(TInt, d+2)
		var pat *canon.Node
		if r.Intn(2) == 0 {
			pat = li(sy("let"), li(sy(x), e1, sy(cl), li(sy("fn"), li(), sy(x)), sy(x), e2), li(sy("list"), li(sy(cl)), sy(x)))
		} else {
			pat = li(sy("let"), li(sy(x), e1, sy(cl), li(sy("fn"), li(), li(sy(later), sy(x))), sy(x), e2, sy(later), li(sy("fn"), li(sy("q")), li(sy("list"), canon.Ke("later"), sy("q")))), li(sy(cl)))
		}
		return li(sy("do"), g.tr(pat), g.Expr(t, d+1))
	case 10:
		// a closure captures a name of a scope the evaluator itself created (let, parameters, catch variable); a later
		// let in tail position of that same scope binds the same name: the closure keeps seeing the first binding
		g.stat("capture-then-shadow")
		x, cl := g.fresh("x"), g.fresh("g")
		e1 := g.Expr(TInt, d+2)
		e2 := g.with([]pvar{{x, TInt}}, func() *canon.Node { return g.Expr(TInt, d+2) })
		inner := li(sy("let"), li(sy(x), e2), li(sy("list"), li(sy(cl)), sy(x)))
		if r.Intn(3) == 0 {
			inner = li(sy("if"), canon.Bo(true), li(sy("do"), g.mark(), inner), canon.N())
		}
		capt := li(sy("let"), li(sy(cl), li(sy("fn"), li(), sy(x))), inner)
		var pat *canon.Node
		switch k := r.Intn(3); {
		case k == 0:
			pat = li(sy("let"), li(sy(x), e1, sy(cl), li(sy("fn"), li(), sy(x))), inner)
		case k == 1 || !g.o.Try:
			pat = li(li(sy("fn"), li(sy(x)), g.mark(), capt), e1)
		default:
			pat = li(sy("try"), li(sy("throw"), e1), li(sy("catch"), sy(x), capt))
		}
		return li(sy("do"), g.tr(pat), g.Expr(t, d+1))
	}
	switch t {
	case TInt:
		switch r.Intn(12) {
		case 0, 1:
			op := Pick(r, []string{"+", "-", "*"})
			return call(op, g.Expr(TInt, d+1), g.Expr(TInt, d+1))
		case 2:
			if fs := g.varsOf(TFn1); len(fs) > 0 {
				g.stat("call-fn1")
				return call(Pick(r, fs).name, g.Expr(TInt, d+1))
			}
		case 3:
			if fs := g.varsOf(TFn2); len(fs) > 0 {
				g.stat("call-fn2")
				return call(Pick(r, fs).name, g.Expr(TInt, d+1), g.Expr(TInt, d+1))
			}
		case 4:
			return call("count", g.Expr(TList, d+1))
		case 5:
			// rest parameter function applied to 1..4 arguments
			g.stat("rest-param")
			a, rs := g.fresh("a"), g.fresh("r")
			n := r.Intn(4)
			if r.Intn(3) == 0 {
				// two positional parameters before the rest parameter, called with exactly two or more arguments
				g.stat("rest-param-2")
				b := g.fresh("b")
				args := []*canon.Node{g.Expr(TInt, d+1), g.Expr(TInt, d+1)}
				for i := 0; i < n; i++ {
					args = append(args, g.Expr(TInt, d+1))
				}
				body := g.with([]pvar{{a, TInt}, {b, TInt}, {rs, TList}}, func() *canon.Node {
					return call("+", call("+", sy(a), sy(b)), call("count", sy(rs)))
				})
				return li(append([]*canon.Node{li(sy("fn"), li(sy(a), sy(b), sy("&"), sy(rs)), body)}, args...)...)
			}
			args := []*canon.Node{g.Expr(TInt, d+1)}
			for i := 0; i < n; i++ {
				args = append(args, g.Expr(TInt, d+1))
			}
			body := g.with([]pvar{{a, TInt}, {rs, TList}}, func() *canon.Node {
				return call("+", sy(a), call("count", sy(rs)))
			})
			if r.Intn(2) == 0 {
				body = g.with([]pvar{{a, TInt}, {rs, TList}}, func() *canon.Node { return g.Expr(TInt, d+2) })
			}
			return li(append([]*canon.Node{li(sy("fn"), li(sy(a), sy("&"), sy(rs)), body)}, args...)...)
		case 6:
			return call("apply", g.Expr(TFn2, d+1), call("list", g.Expr(TInt, d+1), g.Expr(TInt, d+1)))
		case 7:
			// nth on a literal list with an index in range
			return call("nth", li(sy("list"), g.Expr(TInt, d+1), g.Expr(TInt, d+1)), canon.In(r.Intn(2)))
		case 8:
			// an atom local to the expression: swap!/reset!/deref are ordered effects on a reference object
			g.stat("atom")
			at := g.fresh("at")
			return li(sy("let"), li(sy(at), call("atom", g.Expr(TInt, d+1))),
				call("swap!", sy(at), sy("+"), g.Expr(TInt, d+1)),
				call("swap!", sy(at), li(sy("fn"), li(sy("v")), g.mark(), call("*", sy("v"), canon.In(2)))),
				call("reset!", sy(at), call("+", call("deref", sy(at)), canon.In(1))),
				call("deref", sy(at)))
		case 9:
			g.stat("reduce")
			return call("reduce", g.Expr(TFn2, d+1), g.Expr(TInt, d+1), g.Expr(TList, d+1))
		}
		return g.leaf(t)
	case TBool:
		switch r.Intn(8) {
		case 0, 1:
			return call(Pick(r, []string{"<", "<=", ">", ">=", "="}), g.Expr(TInt, d+1), g.Expr(TInt, d+1))
		case 2:
			return call("not", g.Expr(TBool, d+1))
		case 3:
			return call("nil?", g.Expr(TAny, d+1))
		case 4:
			return call("empty?", g.Expr(TList, d+1))
		case 5:
			return call("=", g.Expr(TList, d+1), g.Expr(TList, d+1))
		case 6:
			// truthiness of non-boolean values: only nil and false are falsy
			g.stat("truthy-nonbool")
			cond := Pick(r, []*canon.Node{canon.In(0), canon.St(""), canon.Li(), canon.N(), canon.Bo(false), canon.Ve(), canon.Ke("k"),
				// collection literals in condition position are evaluated like any other form (their elements' effects happen)
				canon.Ve(g.tr(canon.In(r.Intn(5)))), canon.Ma(map[string]*canon.Node{canon.Marker + "k": g.tr(canon.In(r.Intn(5)))}), canon.Ve(g.mark(), canon.N()), canon.Se("m")})
			return li(sy("if"), cond, canon.Bo(true), canon.Bo(false))
		}
		return g.leaf(t)
	case TList:
		switch r.Intn(10) {
		case 0, 1:
			n := r.Intn(4)
			l := []*canon.Node{sy(Pick(r, []string{"list", "vector"}))}
			for i := 0; i < n; i++ {
				l = append(l, g.Expr(TInt, d+1))
			}
			return li(l...)
		case 2:
			return call("cons", g.Expr(TInt, d+1), g.Expr(TList, d+1))
		case 3:
			return call("concat", g.Expr(TList, d+1), g.Expr(TList, d+1))
		case 4:
			return call("rest", g.Expr(TList, d+1))
		case 5:
			g.stat("map")
			return call("map", g.Expr(TFn1, d+1), g.Expr(TList, d+1))
		case 6:
			// vector literal: elements evaluated left to right
			n := r.Intn(3)
			l := []*canon.Node{}
			for i := 0; i < n; i++ {
				l = append(l, g.Expr(TInt, d+1))
			}
			return canon.Ve(l...)
		case 7:
			if g.o.Macros {
				return g.genQQList(d)
			}
		case 8:
			// a closure with only a rest parameter mapped over a list: every call gets its own argument list
			g.stat("map-rest-closure")
			return call("apply", sy("concat"), call("map", li(sy("fn"), li(sy("&"), sy("xs")), sy("xs")), g.Expr(TList, d+1)))
		}
		return g.leaf(t)
	case TFn1:
		if vs := g.varsOf(TFn1); len(vs) > 0 && r.Intn(3) == 0 {
			return sy(Pick(r, vs).name)
		}
		g.stat("closure")
		p := g.fresh("p")
		body := g.with([]pvar{{p, TInt}}, func() *canon.Node { return g.Expr(TInt, d+1) })
		if r.Intn(3) == 0 {
			return li(sy("fn"), li(sy(p)), g.mark(), body)
		}
		return li(sy("fn"), canon.Ve(sy(p)), body)
	case TFn2:
		if vs := g.varsOf(TFn2); len(vs) > 0 && r.Intn(3) == 0 {
			return sy(Pick(r, vs).name)
		}
		if r.Intn(4) == 0 {
			return sy(Pick(r, []string{"+", "-", "*"}))
		}
		p, q := g.fresh("p"), g.fresh("q")
		body := g.with([]pvar{{p, TInt}, {q, TInt}}, func() *canon.Node { return g.Expr(TInt, d+1) })
		return li(sy("fn"), li(sy(p), sy(q)), body)
	case TAny:
		if r.Intn(3) == 0 {
			// a map literal with computed values as the value of the enclosing construct (tail/result position);
			// at most one value is effectful (the order of map-literal values is unspecified)
			g.stat("map-literal-result")
			return canon.Ma(map[string]*canon.Node{canon.Marker + "k": g.Expr(TInt, d+1), "s": call("+", canon.In(r.Intn(9)), canon.In(1)), canon.Marker + "c": canon.In(r.Intn(5))})
		}
		return g.Expr([]Ty{TInt, TBool, TList}[r.Intn(3)], d+1)
	}
	return g.leaf(t)
}

func (g *PG) leaf(t Ty) *canon.Node {
	r := g.r
	if vs := g.varsOf(t); len(vs) > 0 && r.Intn(2) == 0 {
		return sy(Pick(r, vs).name)
	}
	switch t {
	case TInt:
		return canon.In(r.Intn(20) - 5)
	case TBool:
		return canon.Bo(r.Intn(2) == 0)
	case TList:
		n := r.Intn(4)
		l := make([]*canon.Node, n)
		for i := range l {
			l[i] = canon.In(r.Intn(10))
		}
		if r.Intn(2) == 0 {
			return call("quote", canon.Li(l...))
		}
		return canon.Ve(l...)
	case TFn1:
		p := g.fresh("p")
		return li(sy("fn"), li(sy(p)), call("+", sy(p), canon.In(r.Intn(5))))
	case TFn2:
		return sy("+")
	}
	return Pick(r, []*canon.Node{canon.N(), canon.In(r.Intn(5)), canon.St("s"), canon.Ke("k"), canon.Bo(true)})
}

// sideEffect: an expression evaluated for effect inside do/let/fn bodies.
func (g *PG) sideEffect(d int) *canon.Node {
	switch g.r.Intn(5) {
	case 0:
		return g.mark()
	case 1:
		return g.tr(g.Expr(TInt, d+1))
	case 2:
		// a def inside a non-top-level body: binds in the current scope only (must not leak, must not
		// clobber an outer variable of the same name)
		g.stat("inner-def")
		name := "inner" + g.o.Suffix
		if vs := g.scope; len(vs) > 0 && g.r.Intn(3) == 0 {
			name = Pick(g.r, vs).name // def of a name that also exists further out: shadows locally at most
			for _, v := range vs {
				if v.name == name && (v.ty != TInt || name == "n") { // never the counter of a recursion
					name = "inner" + g.o.Suffix
				}
			}
		}
		return li(sy("def"), sy(name), g.Expr(TInt, d+1))
	case 3:
		// map literal with at most one effectful value
		return canon.Ma(map[string]*canon.Node{canon.Marker + "a": canon.In(1), "b": g.tr(g.Expr(TInt, d+1))})
	default:
		return g.Expr(TAny, d+1)
	}
}

func (g *PG) genLet(t Ty, d int) *canon.Node {
	r := g.r
	n := 1 + r.Intn(3)
	var binds []*canon.Node
	var vs []pvar
	base := len(g.scope)
	for i := 0; i < n; i++ {
		var name string
		fresh := true
		// shadowing: reuse an existing name sometimes
		if cands := g.varsOf(TInt); len(cands) > 0 && r.Intn(3) == 0 {
			name = Pick(r, cands).name
			fresh = false
			g.stat("shadow")
		} else {
			name = g.fresh("v")
		}
		ty := Pick(r, []Ty{TInt, TInt, TList, TFn1, TBool})
		if !fresh {
			ty = TInt
		}
		e := g.Expr(ty, d+1) // sequential: may use earlier bindings of this let
		binds = append(binds, sy(name), e)
		v := pvar{name, ty}
		vs = append(vs, v)
		g.scope = append(g.scope, v)
	}
	var body []*canon.Node
	for i := 0; i < r.Intn(2); i++ {
		body = append(body, g.sideEffect(d+1))
	}
	body = append(body, g.Expr(t, d+1))
	g.scope = g.scope[:base]
	bl := canon.Li(binds...)
	if r.Intn(2) == 0 {
		bl = canon.Ve(binds...)
	}
	return li(append([]*canon.Node{sy("let"), bl}, body...)...)
}

// thrownObjects: non-self-evaluating and self-evaluating values to throw.
func (g *PG) thrownObject() *canon.Node {
	r := g.r
	q := func(n *canon.Node) *canon.Node { return call("quote", n) }
	switch r.Intn(12) {
	case 10:
		// falsy and empty objects are thrown values like any other
		g.stat("throw-falsy-or-empty")
		return Pick(r, []*canon.Node{canon.N(), canon.Bo(false), canon.In(0), canon.St(""), canon.Ve(), li(sy("list")), canon.Ma(map[string]*canon.Node{})})
	case 11:
		g.stat("throw-falsy-or-empty")
		return li(sy("if"), canon.Bo(false), canon.In(1))
	case 0:
		g.stat("throw-call-shaped")
		return q(li(sy("+"), canon.In(1), canon.In(2)))
	case 1:
		g.stat("throw-call-shaped")
		return q(li(sy("trace!"), canon.Ke("again")))
	case 2:
		g.stat("throw-symbol")
		return q(sy("undefined-sym"))
	case 3:
		g.stat("throw-map-with-symbols")
		return q(canon.Ma(map[string]*canon.Node{canon.Marker + "a": sy("nope"), "b": li(sy("trace!"), canon.In(9))}))
	case 4:
		g.stat("throw-vector-of-calls")
		return q(canon.Ve(li(sy("trace!"), canon.Ke("v")), sy("zz")))
	case 5:
		return canon.St("boom")
	case 6:
		return canon.In(r.Intn(100))
	case 7:
		return canon.Ke("err")
	case 8:
		g.stat("throw-call-shaped")
		return q(li(sy("throw"), canon.St("nested")))
	default:
		return call("list", canon.In(1), g.Expr(TInt, g.o.MaxDepth))
	}
}

// thrower generates an expression that raises.
func (g *PG) thrower(d int) *canon.Node {
	r := g.r
	n := 8
	if g.o.GoErrors {
		n = 12
	}
	switch r.Intn(n) {
	case 0, 1, 2:
		return call("throw", g.thrownObject())
	case 3:
		// thrown 1-3 frames down
		g.stat("throw-in-callee")
		inner := call("throw", g.thrownObject())
		for i := 0; i <= r.Intn(3); i++ {
			inner = li(li(sy("fn"), li(), g.mark(), inner))
		}
		return inner
	case 4:
		g.stat("throw-in-map")
		return call("map", li(sy("fn"), li(sy("x")), call("throw", g.thrownObject())), canon.Ve(canon.In(1), canon.In(2)))
	case 5:
		g.stat("throw-in-apply")
		return call("apply", li(sy("fn"), li(sy("&"), sy("xs")), call("throw", g.thrownObject())), call("list", canon.In(1)))
	case 6:
		if r.Intn(2) == 0 {
			// the throw originates in a function called by a collection builtin / swap! / reduce: the thrown object
			// must come out of the builtin unchanged
			g.stat("throw-in-higher-order-builtin")
			thr := li(sy("fn"), li(sy("x")), call("throw", g.thrownObject()))
			return Pick(r, []*canon.Node{
				call("update-in", canon.Ma(map[string]*canon.Node{canon.Marker + "a": canon.Ma(map[string]*canon.Node{canon.Marker + "b": canon.In(1)})}), canon.Ve(canon.Ke("a"), canon.Ke("b")), thr),
				call("update-in", canon.Ve(canon.Ve(canon.In(1), canon.In(2))), canon.Ve(canon.In(0), canon.In(1)), thr),
				call("update", canon.Ma(map[string]*canon.Node{canon.Marker + "a": canon.In(1)}), canon.Ke("a"), thr),
				call("swap!", call("atom", canon.In(1)), thr),
				call("reduce", li(sy("fn"), li(sy("acc"), sy("x")), call("throw", g.thrownObject())), canon.In(0), canon.Ve(canon.In(1), canon.In(2))),
			})
		}
		g.stat("error-unbound")
		return sy("unbound-symbol-zz")
	case 7:
		if r.Intn(3) == 0 {
			// the error is raised while the (library) macro call is being expanded: (cond) with an odd number of forms
			g.stat("throw-during-macro-expansion")
			return Pick(r, []*canon.Node{li(sy("cond"), canon.In(1)), li(sy("cond"), canon.Bo(false), canon.In(1), canon.Bo(true)), li(sy("cond"), canon.N(), g.mark(), g.mark())})
		}
		g.stat("error-builtin")
		return Pick(r, []*canon.Node{call("+", canon.In(1), canon.St("s")), call("nth", canon.Ve(), canon.In(3)), call("/", canon.In(1), canon.In(0)), li(canon.In(1), canon.In(2))})
	case 8:
		g.stat("go-error-returned")
		return call(Pick(r, []string{"fail!", "fail2!"}))
	case 9:
		g.stat("go-error-panicked")
		return call("panic-err!")
	case 10:
		g.stat("go-panic-value")
		return call("panic-val!", Pick(r, []*canon.Node{canon.St("pv"), canon.In(7), call("quote", li(sy("+"), canon.In(1), canon.In(1)))}))
	default:
		return call("throw", g.thrownObject())
	}
}

func (g *PG) genTry(t Ty, d int) *canon.Node {
	r := g.r
	g.stat("try")
	l := []*canon.Node{sy("try")}
	// body
	nb := r.Intn(3)
	for i := 0; i < nb; i++ {
		l = append(l, g.sideEffect(d+1))
	}
	throws := r.Intn(2) == 0
	bodyEndsWithMacro := false
	if throws {
		if r.Intn(3) == 0 {
			// throw in the middle: later body forms must not run
			l = append(l, g.thrower(d+1), g.mark())
		} else {
			l = append(l, g.thrower(d+1))
		}
		g.stat("try-body-throws")
	} else if g.o.Macros && len(g.macros) > 0 && r.Intn(3) == 0 {
		// the last body form is a macro call: it is expanded once, when it is evaluated, like anywhere else
		g.stat("try-body-ends-with-macro-call")
		l = append(l, g.macroCall(d+1))
		bodyEndsWithMacro = true
	} else {
		l = append(l, g.Expr(t, d+1))
	}
	hasCatch := r.Intn(4) != 0
	if bodyEndsWithMacro && r.Intn(2) == 0 {
		hasCatch = false
	}
	hasFinally := r.Intn(2) == 0
	// the catch symbol is also bound further out to a known value: finally and later code must see that one
	cv := "e"
	switch r.Intn(5) {
	case 0, 1:
		cv = g.fresh("e")
	case 2:
		cv = "_" // an ordinary symbol: it is bound to the caught value inside the handler like any other name
	}
	if hasCatch {
		g.stat("catch")
		h := []*canon.Node{sy("catch"), sy(cv)}
		if r.Intn(3) != 0 {
			h = append(h, g.mark())
		} else {
			g.stat("handler-of-one-form") // the handler's value is that of its only form, evaluated like any other
		}
		switch r.Intn(9) {
		case 7:
			h = append(h, canon.Ve(canon.Ke("err"), sy(cv), g.Expr(TInt, d+1))) // a vector literal: its elements are evaluated
			g.stat("handler-is-a-collection-literal")
		case 8:
			h = append(h, canon.Ma(map[string]*canon.Node{canon.Marker + "err": sy(cv), canon.Marker + "n": g.Expr(TInt, d+1)}))
			g.stat("handler-is-a-collection-literal")
		case 0, 1:
			h = append(h, sy(cv)) // returns the caught value itself (double-evaluation detector)
			g.stat("handler-returns-caught")
		case 2:
			h = append(h, call("throw", sy(cv))) // rethrow
			g.stat("handler-rethrows")
		case 3:
			h = append(h, g.thrower(d+1)) // throws another
			g.stat("handler-throws-other")
		case 4:
			h = append(h, call("list", sy(cv), g.Expr(t, d+1)))
		case 5:
			// handler tail-calls a function
			h = append(h, li(li(sy("fn"), li(sy("z")), g.mark(), sy("z")), sy(cv)))
			g.stat("handler-tail-call")
		default:
			h = append(h, g.Expr(t, d+1))
		}
		l = append(l, li(h...))
	}
	if hasFinally {
		g.stat("finally")
		f := []*canon.Node{sy("finally"), g.mark()}
		if r.Intn(2) == 0 {
			// finally looks at the catch symbol: must resolve to the outer binding (or be unbound), never the caught value
			f = append(f, li(sy("trace!"), li(sy("try"), sy(cv), li(sy("catch"), sy("_"), canon.Ke("unbound")))))
			g.stat("finally-reads-catch-symbol")
		}
		if r.Intn(5) == 0 {
			f = append(f, g.thrower(d+1)) // finally itself raises: must not change the outcome
			g.stat("finally-throws")
		}
		l = append(l, li(f...))
	}
	tryF := li(l...)
	if r.Intn(2) == 0 {
		// bind the catch symbol outside to a distinct value and read it after the try
		return li(sy("let"), li(sy(cv), canon.Ke("outer-"+cv)), li(sy("list"), tryF, sy(cv)))
	}
	return tryF
}

// genQQList: a quasiquoted template producing a list of ints (evaluated data, not code).
func (g *PG) genQQList(d int) *canon.Node {
	r := g.r
	g.stat("quasiquote")
	n := 1 + r.Intn(4)
	var elts []*canon.Node
	for i := 0; i < n; i++ {
		switch r.Intn(4) {
		case 0:
			elts = append(elts, canon.In(r.Intn(9)))
		case 1:
			elts = append(elts, li(sy("unquote"), g.Expr(TInt, d+1)))
		case 2:
			elts = append(elts, li(sy("splice-unquote"), g.Expr(TList, d+1)))
		default:
			elts = append(elts, li(sy("unquote"), g.tr(g.Expr(TInt, d+1))))
		}
	}
	return li(sy("quasiquote"), canon.Li(elts...))
}

func (g *PG) genLibMacro(t Ty, d int) *canon.Node {
	r := g.r
	switch r.Intn(5) {
	case 0:
		g.stat("cond")
		n := 1 + r.Intn(3)
		l := []*canon.Node{sy("cond")}
		for i := 0; i < n; i++ {
			l = append(l, g.Expr(TBool, d+1), li(sy("do"), g.mark(), g.Expr(t, d+1)))
		}
		l = append(l, canon.Ke("else"), g.Expr(t, d+1))
		return li(l...)
	case 1:
		g.stat("and")
		if t != TBool && t != TAny {
			return li(sy("if"), li(sy("and"), g.tr(g.Expr(TBool, d+1)), g.tr(g.Expr(TBool, d+1))), g.Expr(t, d+1), g.Expr(t, d+1))
		}
		l := []*canon.Node{sy("and")}
		for i := 0; i < r.Intn(4); i++ {
			l = append(l, g.tr(g.Expr(TBool, d+1)))
		}
		return li(l...)
	case 2:
		g.stat("or")
		if t != TBool && t != TAny {
			return li(sy("if"), li(sy("or"), g.tr(g.Expr(TBool, d+1)), g.tr(g.Expr(TBool, d+1))), g.Expr(t, d+1), g.Expr(t, d+1))
		}
		l := []*canon.Node{sy("or")}
		for i := 0; i < r.Intn(4); i++ {
			l = append(l, g.tr(g.Expr(TBool, d+1)))
		}
		return li(l...)
	case 3:
		if t == TInt {
			g.stat("->")
			return li(sy("->"), g.tr(g.Expr(TInt, d+1)), li(sy("+"), g.tr(g.Expr(TInt, d+1))), li(sy("-"), canon.In(r.Intn(5))), sy("inc"))
		}
	case 4:
		if t == TInt {
			g.stat("->>")
			return li(sy("->>"), g.tr(g.Expr(TInt, d+1)), li(sy("-"), g.tr(g.Expr(TInt, d+1))), li(sy("*"), canon.In(2)), sy("dec"))
		}
	}
	return g.Expr(t, d+1)
}

// Program generates a sequence of top-level forms. The last form is the result expression.
func (g *PG) Program() []*canon.Node {
	r := g.r
	g.scope, g.globals, g.nTrace, g.nVar, g.nodes = nil, nil, 0, 0, 0
	g.macros = nil
	sfx := g.o.Suffix
	var forms []*canon.Node
	nforms := 1 + r.Intn(5)
	for i := 0; i < nforms; i++ {
		g.nodes = 0
		switch r.Intn(10) {
		case 0, 1:
			name := fmt.Sprintf("g%d%s", len(g.globals), sfx)
			ty := Pick(r, []Ty{TInt, TInt, TList, TBool})
			forms = append(forms, li(sy("def"), sy(name), g.Expr(ty, 1)))
			g.globals = append(g.globals, pvar{name, ty})
		case 2:
			name := fmt.Sprintf("f%d%s", len(g.globals), sfx)
			forms = append(forms, li(sy("def"), sy(name), g.Expr(TFn1, 1)))
			g.globals = append(g.globals, pvar{name, TFn1})
		case 3:
			// recursion on a decreasing counter (non-tail and tail variants)
			g.stat("recursion")
			name := fmt.Sprintf("rec%d%s", len(g.globals), sfx)
			var body *canon.Node
			step := g.with([]pvar{{"n", TInt}}, func() *canon.Node { return g.Expr(TInt, g.o.MaxDepth-1) })
			if r.Intn(2) == 0 {
				body = li(sy("if"), call("<", sy("n"), canon.In(1)), canon.In(0), call("+", step, call(name, call("-", sy("n"), canon.In(1)))))
			} else {
				body = li(sy("if"), call("<", sy("n"), canon.In(1)), li(sy("do"), g.mark(), canon.In(0)), li(sy("do"), g.tr(sy("n")), call(name, call("-", sy("n"), canon.In(1)))))
			}
			forms = append(forms, li(sy("def"), sy(name), li(sy("fn"), li(sy("n")), body)))
			g.globals = append(g.globals, pvar{name, TFn1})
			forms = append(forms, g.tr(call(name, canon.In(r.Intn(6)))))
		case 4:
			// mutual recursion through def
			g.stat("mutual-recursion")
			ev, od := fmt.Sprintf("ev%d%s", len(g.globals), sfx), fmt.Sprintf("od%d%s", len(g.globals), sfx)
			forms = append(forms,
				li(sy("def"), sy(ev), li(sy("fn"), li(sy("n")), li(sy("if"), call("=", sy("n"), canon.In(0)), canon.Bo(true), call(od, call("-", sy("n"), canon.In(1)))))),
				li(sy("def"), sy(od), li(sy("fn"), li(sy("n")), li(sy("if"), call("=", sy("n"), canon.In(0)), canon.Bo(false), call(ev, call("-", sy("n"), canon.In(1)))))),
				g.tr(call(ev, canon.In(r.Intn(9)))))
		case 5:
			// closure factory: closure called after its defining scope returned
			g.stat("closure-escapes")
			name := fmt.Sprintf("mk%d%s", len(g.globals), sfx)
			forms = append(forms, li(sy("def"), sy(name), li(sy("fn"), li(sy("k")), li(sy("let"), li(sy("w"), call("*", sy("k"), canon.In(2))), li(sy("fn"), li(sy("x")), call("+", sy("x"), call("+", sy("k"), sy("w"))))))))
			add := fmt.Sprintf("add%d%s", len(g.globals), sfx)
			forms = append(forms, li(sy("def"), sy(add), call(name, g.Expr(TInt, 2))))
			g.globals = append(g.globals, pvar{add, TFn1})
		case 6:
			if g.o.Macros {
				forms = append(forms, g.genMacroDef()...)
			} else {
				forms = append(forms, g.Expr(TAny, 1))
			}
		case 7:
			// closures created in successive iterations of a (tail-)recursive loop escape through an accumulator and
			// are called after the loop has finished: each must still see the bindings of its own iteration
			g.stat("closures-from-loop")
			name := fmt.Sprintf("coll%d%s", len(g.globals), sfx)
			n, acc := sy("n"), sy("acc")
			captured := Pick(r, []*canon.Node{n, call("*", n, canon.In(10)), li(sy("list"), n, sy("k"))})
			thunk := li(sy("fn"), li(), captured)
			if r.Intn(3) == 0 {
				thunk = li(sy("fn"), li(sy("x")), call("list", sy("x"), captured))
			}
			rec := call(name, call("-", n, canon.In(1)), call("cons", thunk, acc))
			if r.Intn(2) == 0 {
				rec = call(name, call("-", n, canon.In(1)), call("conj", acc, thunk)) // acc is a vector
			}
			// the recursive call in various tail positions
			switch r.Intn(5) {
			case 0:
				rec = li(sy("do"), g.mark(), rec)
			case 1:
				rec = li(sy("let"), li(sy("k"), call("+", n, canon.In(100))), rec)
			case 2:
				rec = li(sy("cond"), canon.Bo(false), canon.N(), canon.Ke("else"), rec)
			case 3:
				rec = li(sy("if"), canon.Bo(true), rec, canon.N())
			}
			body := li(sy("if"), call("<", n, canon.In(1)), acc, rec)
			fnForm := li(sy("fn"), li(n, acc), body)
			switch r.Intn(3) {
			case 0:
				fnForm = li(sy("fn"), li(n, acc), li(sy("let"), li(sy("k"), call("+", n, canon.In(100))), body))
			case 1:
				// k is captured from the defining scope; the recursive call is made directly from the function's own frame
				fnForm = li(sy("let"), li(sy("k"), canon.In(7)), li(sy("fn"), li(n, acc), body))
			default:
				fnForm = li(sy("let"), li(sy("k"), canon.In(7)), li(sy("fn"), li(n, acc), g.mark(), body))
			}
			forms = append(forms, li(sy("def"), sy(name), fnForm))
			initAcc := Pick(r, []*canon.Node{call("list"), canon.Ve()})
			callAll := li(sy("fn"), li(sy("f")), li(sy("f")))
			if thunk.L[1].K == canon.List && len(thunk.L[1].L) == 1 {
				callAll = li(sy("fn"), li(sy("f")), li(sy("f"), canon.Ke("arg")))
			}
			forms = append(forms, g.tr(call("map", callAll, call(name, canon.In(1+r.Intn(5)), initAcc))))
		default:
			forms = append(forms, g.Expr(TAny, 1))
		}
	}
	g.nodes = 0
	last := g.Expr(Pick(r, []Ty{TInt, TInt, TList, TBool, TAny}), 0)
	if g.o.Macros && len(g.macros) > 0 && r.Intn(2) == 0 {
		last = g.macroCall(0)
	}
	forms = append(forms, last)
	// fault injection
	if g.o.Faults > 0 && r.Intn(100) < g.o.Faults {
		g.stat("fault-injected")
		forms = g.injectFault(forms)
	}
	return forms
}

// genMacroDef defines a macro from a quasiquote template and calls it.
func (g *PG) genMacroDef() []*canon.Node {
	r := g.r
	g.stat("defmacro")
	name := fmt.Sprintf("m%d%s", len(g.macros), g.o.Suffix)
	var def *canon.Node
	uq := func(s string) *canon.Node { return li(sy("unquote"), sy(s)) }
	arity := 2
	switch r.Intn(11) {
	case 10: // the expansion is the first operand form itself
		g.stat("macro-expands-to-operand")
		def = li(sy("fn"), li(sy("x"), sy("y")), sy("x"))
	case 0: // unless-like: operands must arrive unevaluated, only one branch evaluated
		def = li(sy("fn"), li(sy("c"), sy("x")), li(sy("quasiquote"), li(sy("if"), uq("c"), canon.Ke("skipped"), uq("x"))))
	case 1: // evaluates operand twice
		def = li(sy("fn"), li(sy("x"), sy("y")), li(sy("quasiquote"), li(sy("list"), uq("x"), uq("y"), uq("x"))))
	case 2: // rest parameter spliced
		def = li(sy("fn"), li(sy("f"), sy("&"), sy("xs")), li(sy("quasiquote"), li(uq("f"), li(sy("splice-unquote"), sy("xs")))))
		arity = -1
	case 3: // quotes its operand: proves operands are unevaluated
		def = li(sy("fn"), li(sy("x"), sy("y")), li(sy("quasiquote"), li(sy("quote"), li(uq("x"), uq("y")))))
	case 4: // recursive macro with a decreasing literal counter
		g.stat("recursive-macro")
		def = li(sy("fn"), li(sy("n"), sy("x")),
			li(sy("if"), call("<", sy("n"), canon.In(1)), sy("x"),
				li(sy("quasiquote"), li(sy(name), li(sy("unquote"), call("-", sy("n"), canon.In(1))), li(sy("list"), uq("x"))))))
		arity = -2
	case 5: // expands to another macro (library cond) and introduces a let
		def = li(sy("fn"), li(sy("a"), sy("b")), li(sy("quasiquote"), li(sy("let"), li(sy("tmp"), uq("a")), li(sy("cond"), li(sy("nil?"), sy("tmp")), uq("b"), canon.Ke("else"), sy("tmp")))))
	case 8: // the expander itself has an effect: it happens once per expansion of a call
		g.stat("macro-expander-effect")
		def = li(sy("fn"), li(sy("x"), sy("y")), li(sy("do"), li(sy("trace!"), canon.Ke("expanding-"+name)), li(sy("quasiquote"), li(sy("list"), uq("y"), uq("x")))))
	case 6: // expands to a vector literal form: the expansion is evaluated like any other form
		g.stat("macro-expands-to-vector")
		def = li(sy("fn"), li(sy("x"), sy("y")), li(sy("quasiquote"), canon.Ve(uq("x"), uq("y"), li(sy("+"), canon.In(1), canon.In(2)))))
	case 7: // expands to a map literal form
		g.stat("macro-expands-to-map")
		def = li(sy("fn"), li(sy("x"), sy("y")), li(sy("list"), li(sy("quote"), sy("do")), canon.Ma(map[string]*canon.Node{canon.Marker + "k": li(sy("+"), canon.In(1), canon.In(2))}), canon.Ma(map[string]*canon.Node{canon.Marker + "r": sy("x")})))
		def = li(sy("fn"), li(sy("x"), sy("y")), li(sy("quasiquote"), li(sy("do"), uq("y"), li(sy("hash-map"), canon.Ke("v"), uq("x")))))
		if r.Intn(2) == 0 {
			// the expansion itself is a map: built with hash-map at expansion time so that it contains the operand forms
			def = li(sy("fn"), li(sy("x"), sy("y")), li(sy("hash-map"), canon.Ke("a"), sy("x"), canon.Ke("b"), li(sy("quote"), li(sy("+"), canon.In(1), canon.In(2)))))
		}
	default: // expansion resolves a free symbol in the caller's scope
		g.stat("macro-free-symbol")
		def = li(sy("fn"), li(sy("x"), sy("y")), li(sy("quasiquote"), li(sy("list"), sy("callerv"), uq("x"), uq("y"))))
		arity = -3
	}
	var pre []*canon.Node
	if arity == 2 && r.Intn(6) == 0 {
		// the expansion depends on state the expander reads and changes: every evaluation of a call expands afresh
		g.stat("macro-stateful-expander")
		st := name + "-state"
		pre = append(pre, li(sy("def"), sy(st), call("atom", canon.In(0))))
		def = li(sy("fn"), li(sy("x"), sy("y")), li(sy("do"), call("swap!", sy(st), sy("inc")), li(sy("list"), li(sy("quote"), sy("list")), sy("x"), sy("y"), call("deref", sy(st)))))
	}
	g.macros = append(g.macros, name)
	g.marity[name] = arity
	forms := append(pre, li(sy("defmacro"), sy(name), def))
	if r.Intn(5) == 0 {
		// a macro bound, in an inner scope, to a name that is also the name of a special form: the binding wins, the call is
		// a macro call like any other (and equals the evaluation of its expansion)
		g.stat("macro-named-like-special-form")
		sf := Pick(r, []string{"if", "try", "let", "def", "fn"}) // not do: function bodies are evaluated as a synthetic (do …) form, so a macro named do in scope captures them (hygiene, outside the statement)
		swap := li(sy("fn"), li(sy("a"), sy("b")), li(sy("list"), li(sy("quote"), sy("list")), sy("b"), sy("a")))
		callSF := li(sy(sf), g.tr(canon.In(1)), g.tr(canon.In(2)))
		if r.Intn(2) == 0 {
			forms = append(forms, g.tr(li(li(sy("fn"), li(), li(sy("defmacro"), sy(sf), swap), callSF))))
		} else {
			forms = append(forms, g.tr(li(li(sy("fn"), li(), li(sy("defmacro"), sy(sf), swap), li(sy("list"), callSF, li(sy("macroexpand"), li(sy(sf), canon.Ke("x"), canon.Ke("y"))))))))
		}
	}
	if arity == 2 && r.Intn(4) == 0 {
		// macroexpand returns the expansion as data: the operand forms (and the expansion) are not evaluated
		g.stat("macroexpand-as-data")
		forms = append(forms, g.tr(li(sy("macroexpand"), li(sy(name), li(sy("trace!"), canon.Ke("only-expanded-"+name)), canon.In(1)))))
	}
	if arity == 2 && r.Intn(3) == 0 {
		// one call site evaluated several times (a function body): the macro is expanded at every evaluation
		g.stat("macro-call-site-evaluated-repeatedly")
		user := name + "-user"
		forms = append(forms, li(sy("def"), sy(user), li(sy("fn"), li(sy("p")), li(sy(name), sy("p"), li(sy("trace!"), canon.Ke("operand-of-"+name))))))
		forms = append(forms, g.tr(call(user, canon.In(1))), g.tr(call(user, canon.In(2))), g.tr(call("map", sy(user), canon.Ve(canon.In(3), canon.In(4)))))
	}
	if arity == 2 && r.Intn(3) == 0 {
		var others []string
		for _, m := range g.macros[:len(g.macros)-1] {
			if g.marity[m] == 2 {
				others = append(others, m)
			}
		}
		if len(others) > 0 {
			// one call site whose head is a parameter bound to different macros on different calls
			g.stat("macro-call-site-with-varying-head")
			ch := name + "-chooser"
			forms = append(forms, li(sy("def"), sy(ch), li(sy("fn"), li(sy("hd")), li(sy("hd"), g.tr(canon.In(1)), g.tr(canon.In(2))))))
			forms = append(forms, g.tr(call(ch, sy(name))), g.tr(call(ch, sy(Pick(r, others)))), g.tr(call(ch, sy(name))))
		}
	}
	// the same definition as an ordinary function: receives evaluated operands
	if r.Intn(3) == 0 && arity == 2 {
		fname := name + "-as-fn"
		forms = append(forms, li(sy("def"), sy(fname), def))
		forms = append(forms, g.tr(li(sy("try"), call(fname, g.tr(g.Expr(TInt, 3)), g.tr(g.Expr(TInt, 3))), li(sy("catch"), sy("e"), canon.Ke("fn-failed")))))
		g.stat("macro-def-as-fn")
	}
	forms = append(forms, g.tr(g.macroCall(2)))
	a, b := g.tr(g.Expr(TInt, 3)), g.tr(g.Expr(TInt, 3))
	if arity == 2 && r.Intn(3) == 0 {
		// the macro reached through another binding: a global alias, a let binding, a function parameter
		g.stat("macro-alias")
		al := name + "-alias"
		switch r.Intn(4) {
		case 3:
			// metadata attached to the macro value: still a macro
			forms = append(forms, li(sy("def"), sy(al), call("with-meta", sy(name), canon.Ma(map[string]*canon.Node{canon.Marker + "doc": canon.St("x")}))), g.tr(li(sy(al), a, b)))
		case 0:
			forms = append(forms, li(sy("def"), sy(al), sy(name)), g.tr(li(sy(al), a, b)))
		case 1:
			forms = append(forms, g.tr(li(sy("let"), li(sy(al), sy(name)), li(sy(al), a, b))))
		default:
			forms = append(forms, g.tr(li(li(sy("fn"), li(sy(al)), li(sy(al), a, b)), sy(name))))
		}
	}
	if arity == -2 && r.Intn(4) == 0 {
		// many consecutive expansions of a macro that expands directly to a call of itself
		g.stat("deep-recursive-macro")
		forms = append(forms, g.tr(li(sy("count"), li(sy(name), canon.In(140+r.Intn(120)), canon.In(1)))))
	}
	switch r.Intn(4) {
	case 0, 1:
		// a macro defined in an inner scope and called there, in tail and non-tail position: the call must be
		// recognised as a macro call in the scope it is evaluated in
		g.stat("inner-scope-macro")
		im := fmt.Sprintf("im%d%s", len(g.macros), g.o.Suffix)
		imDef := li(sy("defmacro"), sy(im), li(sy("fn"), li(sy("x"), sy("y")), li(sy("quasiquote"), li(sy("if"), uq("x"), li(sy("list"), canon.Ke("then"), sy("q")), uq("y")))))
		imCall := li(sy(im), a, b)
		var holder *canon.Node
		switch r.Intn(4) {
		case 0:
			holder = li(sy("let"), li(sy("q"), canon.In(5)), imDef, imCall)
		case 1:
			holder = li(li(sy("fn"), li(sy("q")), imDef, imCall), canon.In(6))
		case 2:
			holder = li(sy("let"), li(sy("q"), canon.In(7)), imDef, li(sy("if"), canon.Bo(true), imCall, canon.N()))
		default:
			holder = li(sy("let"), li(sy("q"), canon.In(8)), imDef, li(sy("list"), imCall, li(sy("do"), g.mark(), imCall)))
		}
		forms = append(forms, g.tr(holder))
	case 2:
		// a local function shadowing a global macro of the same name: the call is an ordinary application
		if arity == 2 {
			g.stat("macro-shadowed-by-function")
			shadow := li(sy("fn"), li(sy("p"), sy("q")), li(sy("list"), canon.Ke("shadowed-by-fn"), sy("p"), sy("q")))
			callF := li(sy(name), a, b)
			if r.Intn(2) == 0 {
				forms = append(forms, g.tr(li(sy("let"), li(sy(name), shadow), callF)))
			} else {
				forms = append(forms, g.tr(li(li(sy("fn"), li(sy(name)), li(sy("do"), g.mark(), callF)), shadow)))
			}
		}
	}
	return forms
}

func (g *PG) macroCall(d int) *canon.Node {
	r := g.r
	name := Pick(r, g.macros)
	g.stat("macro-call")
	switch g.marity[name] {
	case -1:
		n := 1 + r.Intn(3)
		l := []*canon.Node{sy(name), sy(Pick(r, []string{"list", "vector", "+"}))}
		if l[1].S == "+" {
			n = 2
		}
		for i := 0; i < n; i++ {
			l = append(l, g.tr(g.Expr(TInt, d+2)))
		}
		return li(l...)
	case -2:
		return li(sy(name), canon.In(r.Intn(4)), g.tr(g.Expr(TInt, d+2)))
	case -3:
		return li(sy("let"), li(sy("callerv"), canon.Ke("from-caller")), li(sy(name), g.tr(g.Expr(TInt, d+2)), g.tr(g.Expr(TInt, d+2))))
	}
	return li(sy(name), g.tr(g.Expr(Pick(r, []Ty{TBool, TInt}), d+2)), g.tr(g.Expr(TInt, d+2)))
}

// injectFault plants one fault somewhere in the program.
func (g *PG) injectFault(forms []*canon.Node) []*canon.Node {
	r := g.r
	fault := Pick(r, []func() *canon.Node{
		func() *canon.Node { g.stat("fault-unbound"); return sy("zz-unbound") },
		func() *canon.Node { g.stat("fault-noncallable"); return li(canon.In(1), g.mark()) },
		func() *canon.Node {
			g.stat("fault-arity-few")
			return li(li(sy("fn"), li(sy("a"), sy("b")), sy("a")), g.tr(canon.In(1)))
		},
		func() *canon.Node {
			g.stat("fault-arity-many")
			return li(li(sy("fn"), li(sy("a")), sy("a")), g.tr(canon.In(1)), g.tr(canon.In(2)))
		},
		func() *canon.Node {
			// a function with positional parameters before & called with too few arguments: an arity error, the body
			// must not run; directly and through apply
			g.stat("fault-arity-rest-few")
			f := li(sy("fn"), li(sy("a"), sy("b"), sy("&"), sy("more")), li(sy("do"), g.mark(), sy("a")))
			switch r.Intn(3) {
			case 0:
				return li(f, g.tr(canon.In(1)))
			case 1:
				return li(f)
			}
			return call("apply", f, call("list", g.tr(canon.In(1))))
		},
		func() *canon.Node {
			// an unbound symbol as a non-final form of a body (do, let, fn): evaluated for effect, so it fails there
			g.stat("fault-unbound-in-statement-position")
			switch r.Intn(3) {
			case 0:
				return li(sy("do"), g.mark(), sy("zz-unbound"), g.mark(), canon.In(3))
			case 1:
				return li(sy("let"), li(sy("lq"), canon.In(1)), g.mark(), sy("zz-unbound"), g.mark(), sy("lq"))
			}
			return li(li(sy("fn"), li(sy("fq")), g.mark(), sy("zz-unbound"), g.mark(), sy("fq")), canon.In(2))
		},
		func() *canon.Node { g.stat("fault-builtin-type"); return call("+", g.tr(canon.In(1)), canon.St("s")) },
		func() *canon.Node { g.stat("fault-unbound-head"); return li(sy("zz-unbound-fn"), g.mark()) },
		func() *canon.Node {
			g.stat("fault-in-condition-literal")
			return li(sy("if"), canon.Ve(g.mark(), sy("zz-unbound")), canon.In(1), canon.In(2))
		},
		func() *canon.Node {
			// wrong arity on a function reached through a symbol: the operands' effects still happen first
			if fs := g.varsOfGlobals(TFn1); len(fs) > 0 {
				g.stat("fault-arity-named")
				f := Pick(r, fs).name
				if r.Intn(2) == 0 {
					return li(sy(f), g.tr(canon.In(1)), g.tr(canon.In(2)))
				}
				return li(sy("do"), g.tr(canon.In(0)), li(sy(f)))
			}
			g.stat("fault-arity-few")
			return li(li(sy("fn"), li(sy("a"), sy("b")), sy("a")), g.tr(canon.In(1)))
		},
	})()
	// replace a random sub-expression in argument position of a random form
	fi := r.Intn(len(forms))
	forms[fi] = replaceRandom(r, forms[fi], fault)
	return forms
}

// replaceRandom replaces one randomly chosen operand (never a head symbol, binding name or parameter list).
func replaceRandom(r *rand.Rand, n *canon.Node, with *canon.Node) *canon.Node {
	type slot struct {
		parent *canon.Node
		idx    int
	}
	var slots []slot
	var walk func(x *canon.Node)
	walk = func(x *canon.Node) {
		if x.K != canon.List && x.K != canon.Vec {
			return
		}
		start := 0
		if x.K == canon.List && len(x.L) > 0 && x.L[0].K == canon.Sym {
			switch x.L[0].S {
			case "quote", "quasiquote", "defmacro":
				return
			case "fn", "let", "def", "catch":
				start = 2
			default:
				start = 1
			}
			if x.L[0].S == "let" && len(x.L) > 1 {
				// binding values
				b := x.L[1]
				for i := 1; i < len(b.L); i += 2 {
					slots = append(slots, slot{b, i})
					walk(b.L[i])
				}
			}
		}
		for i := start; i < len(x.L); i++ {
			if x.K == canon.List && len(x.L) > 0 && x.L[0].K == canon.Sym && x.L[0].S == "try" && (isHead(x.L[i], "catch") || isHead(x.L[i], "finally")) {
				walk(x.L[i])
				continue
			}
			slots = append(slots, slot{x, i})
			walk(x.L[i])
		}
	}
	c := canon.Clone(n)
	walk(c)
	if len(slots) == 0 {
		return li(sy("do"), c, with)
	}
	s := slots[r.Intn(len(slots))]
	s.parent.L[s.idx] = with
	return c
}

func isHead(n *canon.Node, s string) bool {
	return n.K == canon.List && len(n.L) > 0 && n.L[0].K == canon.Sym && n.L[0].S == s
}

// GlobalNames lists the global names a program may have defined (for final-binding comparison).
func (g *PG) GlobalNames() []string {
	var out []string
	for _, v := range g.globals {
		out = append(out, v.name)
	}
	out = append(out, "inner"+g.o.Suffix)
	out = append(out, g.macros...)
	return out
}

// LibMacroForm exposes the library-macro form generator (cond/and/or/->/->>).
func (g *PG) LibMacroForm(t Ty, d int) *canon.Node { return g.genLibMacro(t, d) }
