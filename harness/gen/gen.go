// Package gen holds the seeded generators shared by the checks: hostile strings,
// identifiers over the scanner's alphabet and nested data values.
package gen

import (
	"math/rand"
	"strings"

	"verifharness/canon"
)

// HostileRunes are the characters that matter to reader, printer and preamble.
var HostileRunes = []rune{'"', '\\', '\n', '\t', '\r', '¬', 'ʞ', '{', '}', '(', ')', '[', ']', ';', '$', '~', '@', '^', '\'', '`', '#', ':', ' ', 'é', '😀', '\u2028', '\uFEFF', 'a', 'n', '0', '«', '»', ',', '%'}

var letters = []rune("abcdefghijklmnopqrstuvwxyzABCDEFGHIJKLMNOPQRSTUVWXYZ")

func Pick[T any](r *rand.Rand, l []T) T { return l[r.Intn(len(l))] }

// UnicodeRune draws a valid non-surrogate rune from all planes, biased to interesting ones. NUL excluded
// unless allowNUL.
func UnicodeRune(r *rand.Rand, allowNUL bool) rune {
	for {
		var c rune
		switch r.Intn(10) {
		case 0, 1, 2:
			c = HostileRunes[r.Intn(len(HostileRunes))]
		case 3, 4:
			c = rune(0x20 + r.Intn(0x5f))
		case 5:
			c = rune(r.Intn(0x20)) // control chars
		case 6:
			c = rune(0x80 + r.Intn(0x800))
		case 7:
			c = rune(0x800 + r.Intn(0xF800))
		case 8:
			c = rune(0x10000 + r.Intn(0x100000))
		default:
			c = Pick(r, []rune{0x301, 0x200D, 0xFFFD, 0xFEFF, 0x2028, 0x2029, 0x29E, 0xAC, 0x85, 0x7f})
		}
		if c >= 0xD800 && c <= 0xDFFF {
			continue
		}
		if c > 0x10FFFF {
			continue
		}
		if c == 0 && !allowNUL {
			continue
		}
		return c
	}
}

// HostileString draws a string of 0..maxLen runes.
func HostileString(r *rand.Rand, maxLen int, allowNUL bool) string {
	n := r.Intn(maxLen + 1)
	var sb strings.Builder
	mode := r.Intn(4)
	for i := 0; i < n; i++ {
		switch mode {
		case 0:
			sb.WriteRune(HostileRunes[r.Intn(len(HostileRunes))])
		case 1:
			sb.WriteRune(UnicodeRune(r, allowNUL))
		case 2:
			sb.WriteRune(letters[r.Intn(len(letters))])
		default:
			if r.Intn(2) == 0 {
				sb.WriteRune(HostileRunes[r.Intn(len(HostileRunes))])
			} else {
				sb.WriteRune(letters[r.Intn(26)])
			}
		}
	}
	s := sb.String()
	// sometimes force the JSON-looking shape that switches the printer to raw form
	switch r.Intn(12) {
	case 0:
		s = `{"` + s + `}`
	case 1:
		s = `{"` + s + `"}`
	}
	return s
}

var identFirst = []rune("_*+/?!<>=abcdefghijklmnopqrstuvwxyzABCXYZéλЖ中")
var identRest = []rune("_*+/?!<>=abcdefghijklmnopqrstuvwxyzABCXYZéλЖ中-0123456789٣５४")

// Ident draws a symbol/keyword name over the scanner's identifier alphabet
// (never nil/true/false, never starting with '$').
func Ident(r *rand.Rand, maxLen int) string {
	for {
		n := 1 + r.Intn(maxLen)
		var sb strings.Builder
		if r.Intn(8) == 0 {
			sb.WriteByte('-')
			if n > 1 {
				sb.WriteRune(identFirst[r.Intn(len(identFirst))])
			}
		} else {
			sb.WriteRune(identFirst[r.Intn(len(identFirst))])
		}
		for i := sb.Len(); i < n; i++ {
			sb.WriteRune(identRest[r.Intn(len(identRest))])
		}
		s := sb.String()
		if s == "nil" || s == "true" || s == "false" {
			continue
		}
		return s
	}
}

// ValueOpts controls Value.
type ValueOpts struct {
	MaxDepth      int
	MaxWidth      int
	MaxStr        int
	AllowNUL      bool
	Symbols       bool // include symbols
	PlainKeys     bool // keys/strings over letters only
	NoSets        bool
	NoMarkerStart bool // strings never start with U+029E (such a Go string is a keyword)
}

func DefaultOpts() ValueOpts {
	return ValueOpts{MaxDepth: 4, MaxWidth: 4, MaxStr: 8, Symbols: true, NoMarkerStart: true}
}

func (o ValueOpts) str(r *rand.Rand) string {
	var s string
	if o.PlainKeys {
		n := r.Intn(4)
		b := make([]rune, n)
		for i := range b {
			b[i] = letters[r.Intn(6)]
		}
		s = string(b)
	} else {
		s = HostileString(r, o.MaxStr, o.AllowNUL)
	}
	if o.NoMarkerStart {
		for strings.HasPrefix(s, canon.Marker) {
			s = s[len(canon.Marker):]
		}
	}
	return s
}

var interestingInts = []int{0, 1, -1, 2, 7, 10, 42, 255, -255, 1 << 31, -(1 << 31), 1<<63 - 1, -1 << 63, 1000000}

// Value draws a data value.
func Value(r *rand.Rand, o ValueOpts, depth int) *canon.Node {
	leaf := depth >= o.MaxDepth || r.Intn(3) == 0
	if leaf {
		switch r.Intn(8) {
		case 0:
			return canon.N()
		case 1:
			return canon.Bo(r.Intn(2) == 0)
		case 2:
			if r.Intn(3) == 0 {
				return canon.In(interestingInts[r.Intn(len(interestingInts))])
			}
			return canon.In(r.Intn(200) - 100)
		case 3, 4:
			return canon.St(o.str(r))
		case 5:
			return canon.Ke(keyName(r, o))
		case 6:
			if o.Symbols {
				return canon.Sy(Ident(r, 5))
			}
			return canon.In(r.Intn(10))
		default:
			return canon.St(o.str(r))
		}
	}
	w := r.Intn(o.MaxWidth + 1)
	switch r.Intn(5) {
	case 0, 1:
		l := make([]*canon.Node, w)
		for i := range l {
			l[i] = Value(r, o, depth+1)
		}
		return canon.Li(l...)
	case 2:
		l := make([]*canon.Node, w)
		for i := range l {
			l[i] = Value(r, o, depth+1)
		}
		return canon.Ve(l...)
	case 3:
		m := map[string]*canon.Node{}
		for i := 0; i < w; i++ {
			var k string
			if r.Intn(2) == 0 {
				k = canon.Marker + keyName(r, o)
			} else {
				k = o.str(r)
			}
			m[k] = Value(r, o, depth+1)
		}
		return canon.Ma(m)
	default:
		if o.NoSets {
			return canon.Li()
		}
		var mem []string
		for i := 0; i < w; i++ {
			if r.Intn(2) == 0 {
				mem = append(mem, canon.Marker+keyName(r, o))
			} else {
				mem = append(mem, o.str(r))
			}
		}
		return canon.Se(mem...)
	}
}

func keyName(r *rand.Rand, o ValueOpts) string {
	if o.PlainKeys {
		return string(letters[r.Intn(6)])
	}
	return Ident(r, 5)
}
