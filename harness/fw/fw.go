// Package fw is the shared runtime-monitoring framework: worker-side case
// bookkeeping (START/END log, counters, distinct sets, samples, violations)
// and the driver that shards a check over child processes, merges what the
// monitors observed, applies the known-findings list and writes evidence.
package fw

import (
	"encoding/json"
	"fmt"
	"hash/fnv"
	"math/rand"
	"os"
	"runtime"
	"runtime/debug"
	"sort"
	"strings"
	"sync"
	"time"
)

// Violation is one refuting observation.
type Violation struct {
	Key    string `json:"key"`     // deterministic finding key (matched against known_findings.json)
	CaseID string `json:"case_id"` // shard-local case id, usable with --only
	Shard  int    `json:"shard"`
	What   string `json:"what"`  // one-line description
	Input  string `json:"input"` // the failing input / program / history, written out
	Detail string `json:"detail,omitempty"`
}

// Result is what one worker (shard) observed.
type Result struct {
	Prop       string              `json:"prop"`
	Shard      int                 `json:"shard"`
	Counts     map[string]int64    `json:"counts"`
	Distinct   map[string][]uint64 `json:"distinct"`
	Samples    []any               `json:"samples"`
	Violations []Violation         `json:"violations"`
	Notes      []string            `json:"notes,omitempty"`
	Maxes      map[string]int64    `json:"maxes,omitempty"`
	Complete   bool                `json:"complete"`
}

// Ctx is handed to a property's Run function inside a worker process.
type Ctx struct {
	Prop    string
	Tier    string
	Seed    int64
	Shard   int
	NShards int
	Race    bool
	Only    string // when non-empty: execute only this case id
	SkipTo  int    // skip cases with ordinal < SkipTo (restart after a crash)
	WorkDir string
	// ResultPath is where the worker writes its result (set by WorkerMain; used by GiveUp).
	ResultPath string
	runaways   int
	// OnlyWithHistory: when replaying one case (Only), the cases before it are executed as well (properties whose
	// verdict on a case may depend on what the process did before, e.g. state kept between reader calls).
	OnlyWithHistory bool
	onlyDone        bool

	mu       sync.Mutex
	log      *os.File
	ordinal  int
	counts   map[string]int64
	maxes    map[string]int64
	distinct map[string]map[uint64]struct{}
	samples  []any
	viols    []Violation
	notes    []string
	curCase  string
	curInput string
}

const maxDistinctPerKey = 400000
const maxSamples = 12
const maxViolationsKept = 600

func NewCtx(prop, tier string, seed int64, shard, nshards int, workdir string) *Ctx {
	return &Ctx{Prop: prop, Tier: tier, Seed: seed, Shard: shard, NShards: nshards, WorkDir: workdir,
		counts: map[string]int64{}, maxes: map[string]int64{}, distinct: map[string]map[uint64]struct{}{}}
}

func (c *Ctx) Quick() bool { return c.Tier != "thorough" }

// Pick returns q in the quick tier and t in the thorough tier.
func (c *Ctx) Pick(q, t int) int {
	if c.Quick() {
		return q
	}
	return t
}

// PerShard splits a total case count over the shards (this shard's share).
func (c *Ctx) PerShard(total int) int {
	n := total / c.NShards
	if c.Shard < total%c.NShards {
		n++
	}
	return n
}

// Mine tells whether the i-th item of a globally enumerated list belongs to this shard.
func (c *Ctx) Mine(i int) bool { return i%c.NShards == c.Shard }

func hash64(s string) uint64 {
	h := fnv.New64a()
	h.Write([]byte(s))
	return h.Sum64()
}

// Rand returns a PRNG that is a pure function of (seed, property, stream, shard).
func (c *Ctx) Rand(stream string) *rand.Rand {
	return rand.New(rand.NewSource(int64(hash64(fmt.Sprintf("%d|%s|%s|%d", c.Seed, c.Prop, stream, c.Shard)))))
}

// RandGlobal is like Rand but identical in every shard (for globally enumerated lists).
func (c *Ctx) RandGlobal(stream string) *rand.Rand {
	return rand.New(rand.NewSource(int64(hash64(fmt.Sprintf("%d|%s|%s|g", c.Seed, c.Prop, stream)))))
}

func (c *Ctx) OpenLog(path string) error {
	f, err := os.OpenFile(path, os.O_CREATE|os.O_WRONLY|os.O_APPEND, 0o644)
	if err != nil {
		return err
	}
	c.log = f
	return nil
}

func oneLine(s string, max int) string {
	s = strings.ReplaceAll(s, "\n", "\\n")
	s = strings.ReplaceAll(s, "\r", "\\r")
	if len(s) > max {
		s = s[:max] + "…"
	}
	return s
}

// Case runs one case under the START/END log and a recover() sentinel.
// input is the human-readable form of the case (written to the log before it
// runs, so that a process-fatal error is attributable). f reports violations
// through c.Violate; a panic that reaches Case is itself reported with
// key "harness-panic@<site>" unless onPanic maps it.
func (c *Ctx) Case(id string, input string, f func()) {
	c.mu.Lock()
	ord := c.ordinal
	c.ordinal++
	c.mu.Unlock()
	if c.Only != "" && c.Only != id && !(c.OnlyWithHistory && !c.onlyDone) {
		return
	}
	if c.Only == id {
		c.onlyDone = true
	}
	if ord < c.SkipTo {
		return
	}
	if c.log != nil {
		// only the last START matters for crash attribution: keep the log file small
		if ord%2000 == 0 {
			c.log.Truncate(0)
			c.log.Seek(0, 0)
		}
		in := input
		if len(in) > 4096 {
			in = in[:4096] + "…(truncated in the log)"
		}
		// the input is written newline-escaped
		fmt.Fprintf(c.log, "START %d %s %s\n", ord, id, strings.ReplaceAll(strings.ReplaceAll(in, "\\", "\\\\"), "\n", "\\n"))
	}
	c.mu.Lock()
	c.curCase, c.curInput = id, input
	c.mu.Unlock()
	func() {
		defer func() {
			if r := recover(); r != nil {
				st := string(debug.Stack())
				c.Violate(Violation{Key: "panic@" + PanicSite(st), What: fmt.Sprintf("panic reached the harness: %v", r), Detail: st})
			}
		}()
		f()
	}()
	c.Count("cases", 1)
	if c.log != nil {
		fmt.Fprintf(c.log, "END %d %s\n", ord, id)
	}
}

// PanicSite extracts the innermost github.com/jig/lisp frame from a stack dump
// (the frames after the runtime panic frames), as "pkg.func".
func PanicSite(stack string) string {
	lines := strings.Split(stack, "\n")
	seenPanic := false
	for _, l := range lines {
		if strings.HasPrefix(l, "panic(") || strings.HasPrefix(l, "runtime.gopanic") || strings.HasPrefix(l, "runtime.panic") || strings.HasPrefix(l, "runtime.goPanic") {
			seenPanic = true
			continue
		}
		if !seenPanic {
			continue
		}
		if strings.HasPrefix(l, "github.com/jig/lisp") {
			fn := l
			if i := strings.LastIndex(fn, "("); i > 0 {
				fn = fn[:i]
			}
			fn = strings.TrimPrefix(fn, "github.com/jig/lisp/")
			fn = strings.TrimPrefix(fn, "github.com/jig/lisp.")
			// strip closure numbering so that keys are stable across small edits
			for strings.Contains(fn, ".func") {
				i := strings.Index(fn, ".func")
				j := i + 5
				for j < len(fn) && (fn[j] >= '0' && fn[j] <= '9' || fn[j] == '.') {
					j++
				}
				fn = fn[:i] + fn[j:]
			}
			return fn
		}
	}
	if !seenPanic {
		// fall back: first jig/lisp frame anywhere
		for _, l := range lines {
			if strings.HasPrefix(l, "github.com/jig/lisp") {
				fn := l
				if i := strings.LastIndex(fn, "("); i > 0 {
					fn = fn[:i]
				}
				return strings.TrimPrefix(strings.TrimPrefix(fn, "github.com/jig/lisp/"), "github.com/jig/lisp.")
			}
		}
	}
	return "unknown"
}

func (c *Ctx) Count(key string, n int) {
	c.mu.Lock()
	c.counts[key] += int64(n)
	c.mu.Unlock()
}

func (c *Ctx) Max(key string, v int64) {
	c.mu.Lock()
	if v > c.maxes[key] {
		c.maxes[key] = v
	}
	c.mu.Unlock()
}

// Distinct records item in the distinct-set named key.
func (c *Ctx) Distinct(key string, item string) {
	h := hash64(item)
	c.mu.Lock()
	m := c.distinct[key]
	if m == nil {
		m = map[uint64]struct{}{}
		c.distinct[key] = m
	}
	if len(m) < maxDistinctPerKey {
		m[h] = struct{}{}
	}
	c.mu.Unlock()
}

func (c *Ctx) Sample(v any) {
	c.mu.Lock()
	if len(c.samples) < maxSamples {
		c.samples = append(c.samples, v)
	}
	c.mu.Unlock()
}

func (c *Ctx) Note(s string) {
	c.mu.Lock()
	if len(c.notes) < 50 {
		c.notes = append(c.notes, s)
	}
	c.mu.Unlock()
}

// Violate records a violation for the case currently running.
func (c *Ctx) Violate(v Violation) {
	c.mu.Lock()
	if v.CaseID == "" {
		v.CaseID = c.curCase
	}
	if v.Input == "" {
		v.Input = c.curInput
	}
	v.Shard = c.Shard
	c.counts["violations_raw"]++
	c.counts["violations_by_key."+v.Key]++
	// keep a few witnesses per key (and a bounded number of keys) so that frequent findings do not hide rare ones
	if c.counts["violations_by_key."+v.Key] <= 3 && len(c.viols) < maxViolationsKept {
		c.viols = append(c.viols, v)
	}
	c.mu.Unlock()
	if c.log != nil {
		fmt.Fprintf(c.log, "VIOL %s %s\n", v.Key, oneLine(v.What, 300))
	}
}

func (c *Ctx) Result(complete bool) Result {
	c.mu.Lock()
	defer c.mu.Unlock()
	r := Result{Prop: c.Prop, Shard: c.Shard, Counts: map[string]int64{}, Maxes: map[string]int64{}, Distinct: map[string][]uint64{},
		Samples: append([]any(nil), c.samples...), Violations: append([]Violation(nil), c.viols...), Notes: append([]string(nil), c.notes...), Complete: complete}
	for k, v := range c.counts {
		r.Counts[k] = v
	}
	for k, v := range c.maxes {
		r.Maxes[k] = v
	}
	for k, m := range c.distinct {
		l := make([]uint64, 0, len(m))
		for h := range m {
			l = append(l, h)
		}
		sort.Slice(l, func(i, j int) bool { return l[i] < l[j] })
		r.Distinct[k] = l
	}
	return r
}

func (c *Ctx) WriteResult(path string, complete bool) error {
	b, err := json.Marshal(c.Result(complete))
	if err != nil {
		return err
	}
	tmp := path + ".tmp"
	if err := os.WriteFile(tmp, b, 0o644); err != nil {
		return err
	}
	return os.Rename(tmp, path)
}

// Runaway is called after a violation that left a goroutine of the code under test running for ever (a hang): such
// goroutines keep burning CPU and memory, so after the second one the shard stops — its findings so far are reported,
// the remaining cases of this shard are not run (noted in the evidence) — instead of spending minutes per further case.
func (c *Ctx) Runaway() {
	c.runaways++
	if c.runaways < 2 || c.Only != "" {
		return
	}
	c.Note(fmt.Sprintf("shard %d stopped early after %d cases that never returned (their goroutines cannot be stopped)", c.Shard, c.runaways))
	c.Count("shards_stopped_after_hangs", 1)
	if c.ResultPath != "" {
		c.WriteResult(c.ResultPath, true)
	}
	os.Exit(0)
}

// Guard runs f and converts a panic into (panicked=true, site, message, stack).
func Guard(f func()) (panicked bool, site, msg, stack string) {
	defer func() {
		if r := recover(); r != nil {
			stack = string(debug.Stack())
			panicked, site, msg = true, PanicSite(stack), fmt.Sprint(r)
		}
	}()
	f()
	return
}

// WithTimeout runs f on a new goroutine and waits at most d.
// It returns false when f did not return in time (the goroutine is leaked; the caller decides).
func WithTimeout(d time.Duration, f func()) bool {
	done := make(chan struct{})
	go func() { defer close(done); f() }()
	select {
	case <-done:
		return true
	case <-time.After(d):
		return false
	}
}

// GoroutineDump returns all stacks.
func GoroutineDump() string {
	buf := make([]byte, 1<<22)
	n := runtime.Stack(buf, true)
	return string(buf[:n])
}

// Property is the registration record of one check.
type Property struct {
	ID         string
	Race       bool // build and run the workers with -race
	Shards     func(tier string) int
	Run        func(c *Ctx)
	Finish     func(m *Merged) // driver side: floors, derived evidence (may add violations / inconclusive)
	Rule       string
	Level      string // evidence level
	Assume     []string
	TimeoutS   func(tier string) int // per worker wall watchdog
	NonTrivial string                // name of the distinct set that is reported as distinct_nontrivial
	History    bool                  // a replay of one case also executes the cases before it (see Ctx.OnlyWithHistory)
}

var registry = map[string]*Property{}

func Register(p *Property)       { registry[p.ID] = p }
func Lookup(id string) *Property { return registry[id] }
func All() []string {
	var l []string
	for k := range registry {
		l = append(l, k)
	}
	sort.Strings(l)
	return l
}

// ViolationCount returns the number of violations recorded so far by this worker.
func (c *Ctx) ViolationCount() int {
	c.mu.Lock()
	defer c.mu.Unlock()
	return int(c.counts["violations_raw"])
}

// AmendLastViolation replaces the input text of the most recent violation (e.g. with the whole history).
func (c *Ctx) AmendLastViolation(input string) {
	c.mu.Lock()
	defer c.mu.Unlock()
	if n := len(c.viols); n > 0 {
		c.viols[n-1].Input = input
	}
}

// Count2 increments a counter and returns its new value.
func (c *Ctx) Count2(key string) int64 {
	c.mu.Lock()
	defer c.mu.Unlock()
	c.counts[key]++
	return c.counts[key]
}
