package fw

import (
	"flag"
	"fmt"
	"os"
	"runtime/metrics"
	"strconv"
	"time"
)

// memoryGuard ends the worker with a recognisable message when the process has mapped more than the limit (default
// 6 GiB; workers of the unchanged tree stay below 0.3 GiB). The sandbox has no memory limit: without the guard a case
// that allocates without bound would take the whole machine and the kernel's OOM killer would pick arbitrary victims
// (including workers of other checks), which shows as a death without a Go runtime message.
func memoryGuard() {
	limit := uint64(6144)
	if v, err := strconv.ParseUint(os.Getenv("VERIF_MEM_LIMIT_MB"), 10, 64); err == nil && v > 0 {
		limit = v
	}
	limit <<= 20
	sample := []metrics.Sample{{Name: "/memory/classes/total:bytes"}}
	for {
		time.Sleep(200 * time.Millisecond)
		metrics.Read(sample)
		if sample[0].Value.Kind() == metrics.KindUint64 && sample[0].Value.Uint64() > limit {
			fmt.Fprintf(os.Stderr, "fatal error: verif memory guard: worker mapped %d MiB (limit %d MiB)\n", sample[0].Value.Uint64()>>20, limit>>20)
			os.Exit(3)
		}
	}
}

// WorkerMain runs one shard of one property inside a child process.
func WorkerMain(args []string) int {
	fs := flag.NewFlagSet("worker", flag.ExitOnError)
	prop := fs.String("prop", "", "")
	tier := fs.String("tier", "quick", "")
	seed := fs.Int64("seed", 1, "")
	shard := fs.Int("shard", 0, "")
	nshards := fs.Int("nshards", 1, "")
	work := fs.String("work", "", "")
	result := fs.String("result", "", "")
	logp := fs.String("log", "", "")
	skipTo := fs.Int("skip-to", 0, "")
	only := fs.String("only", "", "")
	fs.Parse(args)
	p := Lookup(*prop)
	if p == nil {
		fmt.Fprintln(os.Stderr, "unknown property", *prop)
		return 2
	}
	c := NewCtx(*prop, *tier, *seed, *shard, *nshards, *work)
	c.Race = p.Race
	c.SkipTo = *skipTo
	c.Only = *only
	c.ResultPath = *result
	c.OnlyWithHistory = p.History
	if *logp != "" {
		if err := c.OpenLog(*logp); err != nil {
			fmt.Fprintln(os.Stderr, err)
			return 2
		}
	}
	go memoryGuard()
	stop := make(chan struct{})
	if *result != "" {
		go func() {
			t := time.NewTicker(1500 * time.Millisecond)
			defer t.Stop()
			for {
				select {
				case <-stop:
					return
				case <-t.C:
					c.WriteResult(*result, false)
				}
			}
		}()
	}
	p.Run(c)
	close(stop)
	if *result != "" {
		if err := c.WriteResult(*result, true); err != nil {
			fmt.Fprintln(os.Stderr, err)
			return 2
		}
	}
	return 0
}
