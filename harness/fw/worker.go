package fw

import (
	"flag"
	"fmt"
	"os"
	"time"
)

// WorkerMain runs one shard of one property inside a child process.
func WorkerMain(args []string) int {
	fs := flag.NewFlagSet("worker", flag.ExitOnError)
	prop := fs.String("prop", "", "")
	tier := fs.String("tier", "quick", "")
	seed := fs.Int64("seed", 1, "")
	shard := fs.Int("shard", 0, "")
	nshards := fs.Int("nshards", 1, "")
	work := fs.String("work", "", "")
	result := fs.String("result", "", "")
	logp := fs.String("log", "", "")
	skipTo := fs.Int("skip-to", 0, "")
	only := fs.String("only", "", "")
	fs.Parse(args)
	p := Lookup(*prop)
	if p == nil {
		fmt.Fprintln(os.Stderr, "unknown property", *prop)
		return 2
	}
	c := NewCtx(*prop, *tier, *seed, *shard, *nshards, *work)
	c.Race = p.Race
	c.SkipTo = *skipTo
	c.Only = *only
	if *logp != "" {
		if err := c.OpenLog(*logp); err != nil {
			fmt.Fprintln(os.Stderr, err)
			return 2
		}
	}
	stop := make(chan struct{})
	if *result != "" {
		go func() {
			t := time.NewTicker(1500 * time.Millisecond)
			defer t.Stop()
			for {
				select {
				case <-stop:
					return
				case <-t.C:
					c.WriteResult(*result, false)
				}
			}
		}()
	}
	p.Run(c)
	close(stop)
	if *result != "" {
		if err := c.WriteResult(*result, true); err != nil {
			fmt.Fprintln(os.Stderr, err)
			return 2
		}
	}
	return 0
}
