package fw

import (
	"bufio"
	"encoding/json"
	"fmt"
	"os"
	"os/exec"
	"path/filepath"
	"regexp"
	"sort"
	"strconv"
	"strings"
	"sync"
	"syscall"
	"time"
)

// Merged is the union of what all shards observed.
type Merged struct {
	Prop         string
	Tier         string
	Seed         int64
	Counts       map[string]int64
	Maxes        map[string]int64
	distinct     map[string]map[uint64]struct{}
	Samples      []any
	Violations   []Violation
	Notes        []string
	Inconclusive []string
	Extra        map[string]any // extra evidence keys
}

func (m *Merged) Count(k string) int64 { return m.Counts[k] }
func (m *Merged) DistinctN(k string) int {
	return len(m.distinct[k])
}
func (m *Merged) Floor(k string, min int64) {
	if m.Counts[k] < min {
		m.Inconclusive = append(m.Inconclusive, fmt.Sprintf("coverage floor not reached: %s=%d < %d", k, m.Counts[k], min))
	}
}
func (m *Merged) FloorDistinct(k string, min int) {
	if m.DistinctN(k) < min {
		m.Inconclusive = append(m.Inconclusive, fmt.Sprintf("coverage floor not reached: distinct %s=%d < %d", k, m.DistinctN(k), min))
	}
}

// CountsWithPrefix returns the sub-histogram of counters whose name starts with prefix.
func (m *Merged) CountsWithPrefix(prefix string) map[string]int64 {
	out := map[string]int64{}
	for k, v := range m.Counts {
		if strings.HasPrefix(k, prefix) {
			out[strings.TrimPrefix(k, prefix)] = v
		}
	}
	return out
}

type knownFinding struct {
	Property string `json:"property"`
	Key      string `json:"key"`
	Status   string `json:"status"` // "known" | "fixed"
	Commit   string `json:"commit,omitempty"`
	What     string `json:"what"`
}

type replayFile struct {
	Property string `json:"property"`
	Tier     string `json:"tier"`
	Seed     int64  `json:"seed"`
	Shard    int    `json:"shard"`
	NShards  int    `json:"nshards"`
	CaseID   string `json:"case_id"`
	Key      string `json:"key"`
	What     string `json:"what"`
	Input    string `json:"input"`
	Detail   string `json:"detail,omitempty"`
	Replay   string `json:"how_to_replay"`
}

type shardRun struct {
	shard    int
	attempts int
	results  []Result
	crashes  []Violation
	hung     bool
	complete bool
	notes    []string
}

func verifDir() string {
	if d := os.Getenv("VERIF_DIR"); d != "" {
		return d
	}
	return "/verif"
}

func envSeed() int64 {
	if s := os.Getenv("VERIF_SEED"); s != "" {
		if v, err := strconv.ParseInt(s, 10, 64); err == nil {
			return v
		}
	}
	return 1
}

var goEnv = []string{"GOFLAGS=-mod=mod", "GOPROXY=off", "GOSUMDB=off", "GOTOOLCHAIN=local"}

// buildWorker builds the (race) worker binary from the harness sources, i.e. from /repo's working tree.
func buildWorker(race bool) (string, error) {
	vd := verifDir()
	out := filepath.Join(vd, ".work", "bin", "vcheck")
	args := []string{"build", "-tags", "verif"}
	if race {
		out += "-race"
		args = append(args, "-race")
	}
	if os.Getenv("VERIF_COVER") != "" {
		// development aid (bin/coverage.sh): statement coverage of jig/lisp under the workloads, written to $GOCOVERDIR
		// by every worker that exits normally; registered checks never set this
		out += "-cover"
		args = append(args, "-cover", "-coverpkg=github.com/jig/lisp/...,verifharness/cmd/vcheck")
	}
	if alt := os.Getenv("VERIF_REPO_DIR"); alt != "" {
		// development aid (seeded-change runs): build against a scratch copy of the repository instead of /repo,
		// so that /repo itself is never touched; registered checks never set this
		b, err := os.ReadFile(filepath.Join(vd, "harness", "go.mod"))
		if err != nil {
			return "", err
		}
		tag := fmt.Sprintf("%x", hash64(alt))
		mod := filepath.Join(vd, ".work", "alt-"+tag+".mod")
		os.WriteFile(mod, []byte(strings.Replace(string(b), "=> /repo", "=> "+alt, 1)), 0o644)
		if sum, err := os.ReadFile(filepath.Join(vd, "harness", "go.sum")); err == nil {
			os.WriteFile(filepath.Join(vd, ".work", "alt-"+tag+".sum"), sum, 0o644)
		}
		args = append(args, "-modfile="+mod)
		out += "-alt-" + tag
	}
	args = append(args, "-o", out, "./cmd/vcheck")
	cmd := exec.Command("go", args...)
	cmd.Dir = filepath.Join(vd, "harness")
	cmd.Env = append(os.Environ(), goEnv...)
	b, err := cmd.CombinedOutput()
	if err != nil {
		return "", fmt.Errorf("build failed: %v\n%s", err, b)
	}
	return out, nil
}

var raceFrameRE = regexp.MustCompile(`^\s+(github\.com/jig/lisp\S*?)\(\)\s*$`)

// parseRaceLogs returns one violation per distinct race (deduplicated by the innermost jig/lisp frame of each stack).
func parseRaceLogs(dir string) (int, []Violation) {
	files, _ := filepath.Glob(filepath.Join(dir, "race.log.*"))
	total := 0
	seen := map[string]bool{}
	var out []Violation
	for _, f := range files {
		b, err := os.ReadFile(f)
		if err != nil {
			continue
		}
		blocks := strings.Split(string(b), "WARNING: DATA RACE")
		for _, blk := range blocks[1:] {
			total++
			if i := strings.Index(blk, "=================="); i >= 0 {
				blk = blk[:i]
			}
			// stacks are separated by blank lines; take the first jig/lisp frame of the first two stacks
			var sites []string
			for _, st := range strings.Split(blk, "\n\n") {
				if len(sites) >= 2 {
					break
				}
				hdr := strings.TrimSpace(strings.SplitN(strings.TrimLeft(st, "\n"), "\n", 2)[0])
				if !(strings.Contains(hdr, "by goroutine") || strings.Contains(hdr, "by main goroutine")) || strings.HasPrefix(hdr, "Goroutine") {
					continue
				}
				site := "non-lisp"
				for _, l := range strings.Split(st, "\n") {
					if mm := raceFrameRE.FindStringSubmatch(l); mm != nil {
						site = strings.TrimPrefix(strings.TrimPrefix(mm[1], "github.com/jig/lisp/"), "github.com/jig/lisp.")
						site = regexp.MustCompile(`\.func[0-9.]*`).ReplaceAllString(site, "")
						break
					}
				}
				sites = append(sites, site)
			}
			sort.Strings(sites)
			key := "race@" + strings.Join(sites, "|")
			if !seen[key] {
				seen[key] = true
				d := blk
				if len(d) > 6000 {
					d = d[:6000]
				}
				out = append(out, Violation{Key: key, What: "data race reported by the Go race detector", Input: "(see detail: stacks)", Detail: d, CaseID: "race"})
			}
		}
	}
	return total, out
}

// lastOpenCase finds the last START without matching END in a worker log.
func lastOpenCase(logPath string) (ord int, id, input string, ok bool) {
	f, err := os.Open(logPath)
	if err != nil {
		return
	}
	defer f.Close()
	sc := bufio.NewScanner(f)
	sc.Buffer(make([]byte, 1<<20), 1<<26)
	open := false
	for sc.Scan() {
		l := sc.Text()
		if strings.HasPrefix(l, "START ") {
			p := strings.SplitN(l, " ", 4)
			if len(p) >= 3 {
				ord, _ = strconv.Atoi(p[1])
				id = p[2]
				input = ""
				if len(p) == 4 {
					input = p[3]
				}
				open = true
			}
		} else if strings.HasPrefix(l, "END ") {
			open = false
		}
	}
	ok = open
	if ok {
		input = strings.ReplaceAll(strings.ReplaceAll(strings.ReplaceAll(input, "\\\\", "\x00"), "\\n", "\n"), "\x00", "\\")
	}
	return
}

func tailFile(path string, max int) string {
	b, err := os.ReadFile(path)
	if err != nil {
		return ""
	}
	if len(b) > max {
		b = b[len(b)-max:]
	}
	return string(b)
}

func headFile(path string, max int) string {
	b, err := os.ReadFile(path)
	if err != nil {
		return ""
	}
	if len(b) > max {
		b = b[:max]
	}
	return string(b)
}

// crashKey derives a finding key from a dead worker's stderr.
func crashKey(stderr string) (key, what string) {
	switch {
	case strings.Contains(stderr, "fatal error: concurrent map"):
		i := strings.Index(stderr, "fatal error: concurrent map")
		line := strings.SplitN(stderr[i:], "\n", 2)[0]
		// site: first jig/lisp frame after it
		site := "unknown"
		for _, l := range strings.Split(stderr[i:], "\n") {
			if strings.HasPrefix(l, "github.com/jig/lisp") {
				site = strings.TrimPrefix(strings.TrimPrefix(l[:strings.LastIndex(l, "(")], "github.com/jig/lisp/"), "github.com/jig/lisp.")
				break
			}
		}
		return "fatal@" + site, line
	case strings.Contains(stderr, "fatal error: verif memory guard"):
		i := strings.Index(stderr, "fatal error: verif memory guard")
		return "memory-guard", strings.SplitN(stderr[i:], "\n", 2)[0]
	case strings.Contains(stderr, "fatal error: all goroutines are asleep"):
		return "deadlock", "fatal error: all goroutines are asleep - deadlock!"
	case strings.Contains(stderr, "stack overflow") || strings.Contains(stderr, "goroutine stack exceeds"):
		return "stack-overflow", "goroutine stack exceeds limit"
	case strings.Contains(stderr, "panic: "):
		i := strings.Index(stderr, "panic: ")
		line := strings.SplitN(stderr[i:], "\n", 2)[0]
		// find "goroutine N [running]" section following
		rest := stderr[i:]
		site := "unknown"
		for _, l := range strings.Split(rest, "\n") {
			if strings.HasPrefix(l, "github.com/jig/lisp") {
				fn := l
				if j := strings.LastIndex(fn, "("); j > 0 {
					fn = fn[:j]
				}
				site = strings.TrimPrefix(strings.TrimPrefix(fn, "github.com/jig/lisp/"), "github.com/jig/lisp.")
				site = regexp.MustCompile(`\.func[0-9.]*`).ReplaceAllString(site, "")
				break
			}
		}
		return "panic@" + site, line
	case strings.Contains(stderr, "fatal error: "):
		i := strings.Index(stderr, "fatal error: ")
		line := strings.SplitN(stderr[i:], "\n", 2)[0]
		return "fatal", line
	}
	return "worker-died", "worker process died without a recognisable Go panic"
}

// RunCheck is the driver entry: returns the process exit code.
func RunCheck(propID, tier string) int {
	t0 := time.Now()
	p := Lookup(propID)
	if p == nil {
		fmt.Printf("unknown property %s\n", propID)
		return 2
	}
	seed := envSeed()
	vd := verifDir()
	work := filepath.Join(vd, ".work", propID+"-"+tier+os.Getenv("VERIF_WORK_SUFFIX"))
	os.RemoveAll(work)
	if err := os.MkdirAll(work, 0o755); err != nil {
		fmt.Println("cannot create work dir:", err)
		return 2
	}
	bin, err := buildWorker(p.Race)
	if err != nil {
		fmt.Printf("BROKEN property=%s %v\n", propID, err)
		return 2
	}
	nsh := 16
	if p.Shards != nil {
		nsh = p.Shards(tier)
	}
	timeout := 600
	if tier == "thorough" {
		timeout = 3000
	}
	if p.TimeoutS != nil {
		timeout = p.TimeoutS(tier)
	}

	runs := make([]*shardRun, nsh)
	var wg sync.WaitGroup
	for s := 0; s < nsh; s++ {
		runs[s] = &shardRun{shard: s}
		wg.Add(1)
		go func(sr *shardRun) {
			defer wg.Done()
			runShard(p, bin, tier, seed, sr, nsh, work, time.Duration(timeout)*time.Second, "")
		}(runs[s])
	}
	wg.Wait()

	m := &Merged{Prop: propID, Tier: tier, Seed: seed, Counts: map[string]int64{}, Maxes: map[string]int64{}, distinct: map[string]map[uint64]struct{}{}, Extra: map[string]any{}}
	for _, sr := range runs {
		for _, r := range sr.results {
			mergeResult(m, r)
		}
		m.Violations = append(m.Violations, sr.crashes...)
		m.Notes = append(m.Notes, sr.notes...)
		if !sr.complete {
			if sr.hung {
				m.Inconclusive = append(m.Inconclusive, fmt.Sprintf("shard %d: worker watchdog fired (%ds)", sr.shard, timeout))
			} else {
				m.Inconclusive = append(m.Inconclusive, fmt.Sprintf("shard %d did not complete (too many crashes)", sr.shard))
			}
		}
	}
	if p.Race {
		n, rv := parseRaceLogs(work)
		m.Counts["race_reports"] = int64(n)
		m.Extra["race_reports"] = n
		m.Violations = append(m.Violations, rv...)
	}
	if p.Finish != nil {
		p.Finish(m)
	}
	rc := conclude(p, m, nsh, t0)
	if rc == 0 {
		os.RemoveAll(work) // nothing to investigate: do not keep worker logs (disk space)
	}
	return rc
}

func mergeResult(m *Merged, r Result) {
	for k, v := range r.Counts {
		m.Counts[k] += v
	}
	for k, v := range r.Maxes {
		if v > m.Maxes[k] {
			m.Maxes[k] = v
		}
	}
	for k, l := range r.Distinct {
		s := m.distinct[k]
		if s == nil {
			s = map[uint64]struct{}{}
			m.distinct[k] = s
		}
		for _, h := range l {
			s[h] = struct{}{}
		}
	}
	for _, s := range r.Samples {
		if len(m.Samples) < maxSamples {
			m.Samples = append(m.Samples, s)
		}
	}
	m.Violations = append(m.Violations, r.Violations...)
	m.Notes = append(m.Notes, r.Notes...)
}

func runShard(p *Property, bin, tier string, seed int64, sr *shardRun, nsh int, work string, timeout time.Duration, only string) {
	skipTo := 0
	const maxAttempts = 40
	memDeaths := 0
	silentDeaths := map[int]int{} // ordinal of the open case (-1: outside any case) -> deaths without any Go runtime message
	for sr.attempts < maxAttempts {
		att := sr.attempts
		sr.attempts++
		base := filepath.Join(work, fmt.Sprintf("s%02d.a%02d", sr.shard, att))
		resPath := base + ".result.json"
		logPath := base + ".log"
		args := []string{"worker", "--prop", p.ID, "--tier", tier, "--seed", strconv.FormatInt(seed, 10),
			"--shard", strconv.Itoa(sr.shard), "--nshards", strconv.Itoa(nsh), "--work", work,
			"--result", resPath, "--log", logPath, "--skip-to", strconv.Itoa(skipTo)}
		if only != "" {
			args = append(args, "--only", only)
		}
		var cmd *exec.Cmd
		var so, se *os.File
		var startErr error
		// a worker that cannot be started (ETXTBSY while another process is still writing or forking next to the
		// binary, EAGAIN under load) says nothing about the property: retried, then reported as inconclusive
		for try := 0; try < 8; try++ {
			cmd = exec.Command(bin, args...)
			cmd.Env = append(os.Environ(), goEnv...)
			if p.Race {
				cmd.Env = append(cmd.Env, "GORACE=halt_on_error=0 log_path="+filepath.Join(work, "race.log")+" history_size=2")
			}
			so, _ = os.Create(base + ".stdout")
			se, _ = os.Create(base + ".stderr")
			cmd.Stdout, cmd.Stderr = so, se
			if startErr = cmd.Start(); startErr == nil {
				break
			}
			so.Close()
			se.Close()
			time.Sleep(time.Duration(200*(try+1)) * time.Millisecond)
		}
		if startErr != nil {
			sr.notes = append(sr.notes, fmt.Sprintf("shard %d: worker could not be started: %v", sr.shard, startErr))
			return
		}
		done := make(chan error, 1)
		go func() { done <- cmd.Wait() }()
		hung := false
		var waitErr error
		select {
		case waitErr = <-done:
		case <-time.After(timeout):
			hung = true
			cmd.Process.Signal(syscall.SIGQUIT)
			select {
			case <-done:
			case <-time.After(10 * time.Second):
				cmd.Process.Kill()
				<-done
			}
		}
		so.Close()
		se.Close()
		var r Result
		haveRes := false
		if b, err := os.ReadFile(resPath); err == nil {
			if json.Unmarshal(b, &r) == nil {
				haveRes = true
				sr.results = append(sr.results, r)
			}
		}
		if haveRes && r.Complete && !hung {
			sr.complete = true
			return
		}
		if hung {
			sr.hung = true
			ord, id, input, ok := lastOpenCase(logPath)
			_ = ord
			if ok {
				sr.crashes = append(sr.crashes, Violation{Key: "watchdog", CaseID: id, Shard: sr.shard, What: fmt.Sprintf("worker watchdog (%s) fired while this case was running", timeout), Input: input, Detail: tailFile(base+".stderr", 20000)})
			}
			return
		}
		// the worker died: attribute to the open case and continue after it
		stderr := headFile(base+".stderr", 200000)
		ord, id, input, ok := lastOpenCase(logPath)
		key, what := crashKey(stderr)
		if key == "worker-died" && only == "" {
			// No Go runtime failure was printed: a panic or fatal error of the code under test always prints one, so
			// this death came from outside (a signal, the OOM killer). It says nothing about the property unless it
			// repeats at the same case: rerun from that case, and only the third silent death there is reported.
			at := -1
			if ok {
				at = ord
			}
			silentDeaths[at]++
			state := "unknown"
			if cmd.ProcessState != nil {
				state = cmd.ProcessState.String()
			}
			sr.notes = append(sr.notes, fmt.Sprintf("shard %d attempt %d: worker ended without a Go runtime message (%s, %v) at case ordinal %d; rerun", sr.shard, att, state, waitErr, at))
			if silentDeaths[at] < 3 {
				if ok {
					skipTo = ord
				}
				continue
			}
			what = fmt.Sprintf("worker process died three times without a Go runtime message (%s)", state)
		}
		if !ok {
			sr.crashes = append(sr.crashes, Violation{Key: key + "/outside-case", Shard: sr.shard, What: "worker died outside any case: " + what, Detail: tailFile(base+".stderr", 8000)})
			return
		}
		det := stderr
		if len(det) > 12000 {
			det = det[:12000]
		}
		sr.crashes = append(sr.crashes, Violation{Key: key, CaseID: id, Shard: sr.shard, What: "worker process killed by a Go runtime failure: " + what, Input: input, Detail: det})
		if only != "" {
			return
		}
		if key == "memory-guard" {
			// each such death costs the time it takes to map gigabytes: three are enough evidence for one shard
			memDeaths++
			if memDeaths >= 3 {
				sr.notes = append(sr.notes, fmt.Sprintf("shard %d stopped early after %d cases that exhausted the memory guard", sr.shard, memDeaths))
				sr.complete = true
				return
			}
		}
		skipTo = ord + 1
	}
}

func loadKnown() []knownFinding {
	b, err := os.ReadFile(filepath.Join(verifDir(), "known_findings.json"))
	if err != nil {
		return nil
	}
	var l []knownFinding
	if json.Unmarshal(b, &l) != nil {
		return nil
	}
	return l
}

func conclude(p *Property, m *Merged, nsh int, t0 time.Time) int {
	vd := verifDir()
	known := map[string]knownFinding{}
	for _, k := range loadKnown() {
		if k.Property == p.ID && k.Status == "known" {
			known[k.Key] = k
		}
	}
	// group violations by key
	byKey := map[string][]Violation{}
	var keys []string
	for _, v := range m.Violations {
		if _, ok := byKey[v.Key]; !ok {
			keys = append(keys, v.Key)
		}
		byKey[v.Key] = append(byKey[v.Key], v)
	}
	sort.Strings(keys)
	nviol := 0
	var knownSeen []string
	os.MkdirAll(filepath.Join(vd, "replays"), 0o755)
	for _, k := range keys {
		vs := byKey[k]
		if kf, ok := known[k]; ok {
			fmt.Printf("KNOWN-FINDING: property=%s %s [%s; %d occurrence(s) this run, e.g. %s]\n", p.ID, kf.What, k, max(int64(len(vs)), m.Counts["violations_by_key."+k]), oneLine(vs[0].Input, 120))
			knownSeen = append(knownSeen, k)
			continue
		}
		nviol++
		v := vs[0]
		// prefer the shortest input as witness
		for _, w := range vs {
			if len(w.Input) < len(v.Input) && w.Input != "" {
				v = w
			}
		}
		safe := regexp.MustCompile(`[^A-Za-z0-9_.-]+`).ReplaceAllString(k, "_")
		if len(safe) > 80 {
			safe = safe[:80]
		}
		rp := filepath.Join(vd, "replays", fmt.Sprintf("%s-%s-seed%d-%s.json", p.ID, m.Tier, m.Seed, safe))
		rf := replayFile{Property: p.ID, Tier: m.Tier, Seed: m.Seed, Shard: v.Shard, NShards: nsh, CaseID: v.CaseID, Key: k, What: v.What, Input: v.Input, Detail: v.Detail,
			Replay: fmt.Sprintf("./check %s --replay %s", p.ID, rp)}
		b, _ := json.MarshalIndent(rf, "", " ")
		os.WriteFile(rp, b, 0o644)
		fmt.Printf("  witness[%s] (%d occurrence(s)): %s\n    input: %s\n", k, m.Counts["violations_by_key."+k], oneLine(v.What, 300), oneLine(v.Input, 400))
		fmt.Printf("VIOLATION property=%s replay=%s\n", p.ID, rp)
	}
	// evidence
	nt := p.NonTrivial
	if nt == "" {
		nt = "shapes"
	}
	cov := map[string]any{
		"evaluations":         m.Counts["cases"],
		"distinct_nontrivial": m.DistinctN(nt),
		"rule":                p.Rule,
		"samples":             m.Samples,
		"counters":            m.Counts,
		"maxima":              m.Maxes,
		"shards":              nsh,
	}
	dist := map[string]int{}
	for k := range m.distinct {
		dist[k] = m.DistinctN(k)
	}
	cov["distinct_sets"] = dist
	for k, v := range m.Extra {
		cov[k] = v
	}
	if len(knownSeen) > 0 {
		cov["known_findings_observed"] = knownSeen
	}
	if len(m.Inconclusive) > 0 {
		cov["inconclusive"] = m.Inconclusive
	}
	if len(m.Notes) > 0 {
		n := m.Notes
		if len(n) > 20 {
			n = n[:20]
		}
		cov["notes"] = n
	}
	if len(m.Samples) == 0 {
		cov["samples"] = []any{"(no sample recorded)"}
	}
	level := p.Level
	if level == "" {
		level = "exploration"
	}
	ev := map[string]any{
		"property_id": p.ID,
		"tier":        m.Tier,
		"seed":        m.Seed,
		"level":       level,
		"coverage":    cov,
		"assumptions": p.Assume,
		"wall_s":      time.Since(t0).Seconds(),
		"violations":  nviol,
	}
	os.MkdirAll(filepath.Join(vd, "evidence"), 0o755)
	b, _ := json.MarshalIndent(ev, "", " ")
	if sfx := os.Getenv("VERIF_WORK_SUFFIX"); sfx != "" {
		// seeded-change run: never overwrite the evidence of the real tree
		os.WriteFile(filepath.Join(vd, ".work", p.ID+"-evidence"+sfx+".json"), b, 0o644)
	} else {
		os.WriteFile(filepath.Join(vd, "evidence", p.ID+".json"), b, 0o644)
		if m.Tier == "thorough" {
			// a second copy that the next quick run does not overwrite
			os.MkdirAll(filepath.Join(vd, "evidence", "thorough"), 0o755)
			os.WriteFile(filepath.Join(vd, "evidence", "thorough", p.ID+".json"), b, 0o644)
		}
	}

	fmt.Printf("SUMMARY property=%s tier=%s seed=%d cases=%d distinct(%s)=%d violations=%d known=%d wall=%.1fs\n",
		p.ID, m.Tier, m.Seed, m.Counts["cases"], nt, m.DistinctN(nt), nviol, len(knownSeen), time.Since(t0).Seconds())
	if nviol > 0 {
		return 1
	}
	if len(m.Inconclusive) > 0 {
		for _, s := range m.Inconclusive {
			fmt.Printf("INCONCLUSIVE property=%s %s\n", p.ID, s)
		}
		return 2
	}
	if m.Counts["cases"] == 0 {
		fmt.Printf("INCONCLUSIVE property=%s no case was executed\n", p.ID)
		return 2
	}
	return 0
}

// RunReplay re-executes exactly the recorded case.
func RunReplay(path string) int {
	b, err := os.ReadFile(path)
	if err != nil {
		fmt.Println("cannot read replay file:", err)
		return 2
	}
	var rf replayFile
	if err := json.Unmarshal(b, &rf); err != nil {
		fmt.Println("bad replay file:", err)
		return 2
	}
	p := Lookup(rf.Property)
	if p == nil {
		fmt.Println("unknown property", rf.Property)
		return 2
	}
	bin, err := buildWorker(p.Race)
	if err != nil {
		fmt.Printf("BROKEN property=%s %v\n", rf.Property, err)
		return 2
	}
	work := filepath.Join(verifDir(), ".work", rf.Property+"-replay")
	os.RemoveAll(work)
	os.MkdirAll(work, 0o755)
	sr := &shardRun{shard: rf.Shard}
	runShard(p, bin, rf.Tier, rf.Seed, sr, rf.NShards, work, 600*time.Second, rf.CaseID)
	var viols []Violation
	for _, r := range sr.results {
		viols = append(viols, r.Violations...)
	}
	viols = append(viols, sr.crashes...)
	if p.Race {
		_, rv := parseRaceLogs(work)
		viols = append(viols, rv...)
	}
	if len(viols) == 0 {
		fmt.Printf("replay: case %s of %s did not violate on this tree\n", rf.CaseID, rf.Property)
		return 0
	}
	for _, v := range viols {
		fmt.Printf("  witness[%s]: %s\n    input: %s\n", v.Key, oneLine(v.What, 300), oneLine(v.Input, 400))
	}
	fmt.Printf("VIOLATION property=%s replay=%s\n", rf.Property, path)
	return 1
}
