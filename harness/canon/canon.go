// Package canon is an independent value model of lisp data: it converts Go values of
// jig/lisp into Nodes by type switch (never through the interpreter's own = or printer),
// compares them structurally, converts back to position-less Go values and renders them.
package canon

import (
	"fmt"
	"reflect"
	"sort"
	"strconv"
	"strings"

	"github.com/jig/lisp/types"
)

type Kind int

const (
	Nil Kind = iota
	Bool
	Int
	Str
	Kw
	Sym
	List
	Vec
	Map
	Set
	Opaque // fn, builtin, atom, future, error, float, anything else
)

var kindNames = []string{"nil", "bool", "int", "str", "kw", "sym", "list", "vec", "map", "set", "opaque"}

func (k Kind) String() string { return kindNames[k] }

// Node is one value. Map keys / set members are stored with their kind marker:
// a key is the Go string as the interpreter stores it (keywords carry the U+029E prefix).
type Node struct {
	K   Kind
	B   bool
	I   int
	S   string           // Str, Kw (without marker), Sym, Opaque (type label)
	L   []*Node          // List, Vec
	M   map[string]*Node // Map: raw key -> value
	Mem map[string]bool  // Set: raw members
	X   any              // Opaque payload (reference interpreter closures, original Go object); ignored by Equal
}

const Marker = "ʞ"

func N() *Node              { return &Node{K: Nil} }
func Bo(b bool) *Node       { return &Node{K: Bool, B: b} }
func In(i int) *Node        { return &Node{K: Int, I: i} }
func St(s string) *Node     { return &Node{K: Str, S: s} }
func Ke(s string) *Node     { return &Node{K: Kw, S: s} }
func Sy(s string) *Node     { return &Node{K: Sym, S: s} }
func Li(l ...*Node) *Node   { return &Node{K: List, L: l} }
func Ve(l ...*Node) *Node   { return &Node{K: Vec, L: l} }
func Op(label string) *Node { return &Node{K: Opaque, S: label} }
func Ma(m map[string]*Node) *Node {
	if m == nil {
		m = map[string]*Node{}
	}
	return &Node{K: Map, M: m}
}
func Se(members ...string) *Node {
	m := map[string]bool{}
	for _, s := range members {
		m[s] = true
	}
	return &Node{K: Set, Mem: m}
}

// RawKey returns the Go string the interpreter uses for a Str/Kw node as map key / set member.
func RawKey(n *Node) (string, bool) {
	switch n.K {
	case Str:
		return n.S, true
	case Kw:
		return Marker + n.S, true
	}
	return "", false
}

// KeyNode is the inverse of RawKey.
func KeyNode(raw string) *Node {
	if strings.HasPrefix(raw, Marker) {
		return Ke(raw[len(Marker):])
	}
	return St(raw)
}

// FromGo converts an interpreter value.
func FromGo(v types.MalType) *Node {
	switch t := v.(type) {
	case nil:
		return N()
	case bool:
		return Bo(t)
	case int:
		return In(t)
	case string:
		if strings.HasPrefix(t, Marker) {
			return Ke(t[len(Marker):])
		}
		return St(t)
	case types.Symbol:
		return Sy(t.Val)
	case types.List:
		l := make([]*Node, len(t.Val))
		for i, e := range t.Val {
			l[i] = FromGo(e)
		}
		return &Node{K: List, L: l}
	case types.Vector:
		l := make([]*Node, len(t.Val))
		for i, e := range t.Val {
			l[i] = FromGo(e)
		}
		return &Node{K: Vec, L: l}
	case types.HashMap:
		m := make(map[string]*Node, len(t.Val))
		for k, e := range t.Val {
			m[k] = FromGo(e)
		}
		return &Node{K: Map, M: m}
	case types.Set:
		m := make(map[string]bool, len(t.Val))
		for k := range t.Val {
			m[k] = true
		}
		return &Node{K: Set, Mem: m}
	case types.MalFunc:
		if t.IsMacro {
			return Op("macro")
		}
		return Op("fn")
	case types.Func:
		return Op("builtin")
	case []byte:
		// binary values (str2binary, unbase64): data like any other, compared by content
		return Op("binary:" + string(t))
	case error:
		return &Node{K: Opaque, S: "error", X: t}
	default:
		rt := reflect.TypeOf(v)
		return Op(rt.String())
	}
}

// ToGo builds a position-less interpreter value (what L-notation produces).
func ToGo(n *Node) types.MalType {
	switch n.K {
	case Nil:
		return nil
	case Bool:
		return n.B
	case Int:
		return n.I
	case Str:
		return n.S
	case Kw:
		return Marker + n.S
	case Sym:
		return types.Symbol{Val: n.S}
	case List:
		l := make([]types.MalType, len(n.L))
		for i, e := range n.L {
			l[i] = ToGo(e)
		}
		return types.List{Val: l}
	case Vec:
		l := make([]types.MalType, len(n.L))
		for i, e := range n.L {
			l[i] = ToGo(e)
		}
		return types.Vector{Val: l}
	case Map:
		m := make(map[string]types.MalType, len(n.M))
		for k, e := range n.M {
			m[k] = ToGo(e)
		}
		return types.HashMap{Val: m}
	case Set:
		m := make(map[string]struct{}, len(n.Mem))
		for k := range n.Mem {
			m[k] = struct{}{}
		}
		return types.Set{Val: m}
	}
	panic("canon.ToGo: opaque node " + n.S)
}

// Equal is strict structural equality (list ≠ vector; maps/sets as mathematical maps/sets).
func Equal(a, b *Node) bool { return eq(a, b, false) }

// LispEqual is the documented `=`: like Equal but a list and a vector with pairwise equal elements are equal.
func LispEqual(a, b *Node) bool { return eq(a, b, true) }

// EqualWild compares a real value with a model value: a model node Opaque("error") (an error object
// produced by a builtin, whose concrete representation the statements leave open) matches a real error
// object or message string.
func EqualWild(real, model *Node) bool {
	if model.K == Opaque && model.S == "error" {
		return (real.K == Opaque && real.S == "error") || real.K == Str
	}
	if real.K != model.K {
		return false
	}
	switch real.K {
	case List, Vec:
		if len(real.L) != len(model.L) {
			return false
		}
		for i := range real.L {
			if !EqualWild(real.L[i], model.L[i]) {
				return false
			}
		}
		return true
	case Map:
		if len(real.M) != len(model.M) {
			return false
		}
		for k, v := range real.M {
			w, ok := model.M[k]
			if !ok || !EqualWild(v, w) {
				return false
			}
		}
		return true
	}
	return eq(real, model, false)
}

func eq(a, b *Node, seqInter bool) bool {
	if a.K != b.K {
		if seqInter && (a.K == List || a.K == Vec) && (b.K == List || b.K == Vec) {
			// fallthrough to sequence comparison
		} else {
			return false
		}
	}
	switch a.K {
	case Nil:
		return true
	case Bool:
		return a.B == b.B
	case Int:
		return a.I == b.I
	case Str, Kw, Sym, Opaque:
		return a.S == b.S
	case List, Vec:
		if len(a.L) != len(b.L) {
			return false
		}
		for i := range a.L {
			if !eq(a.L[i], b.L[i], seqInter) {
				return false
			}
		}
		return true
	case Map:
		if len(a.M) != len(b.M) {
			return false
		}
		for k, v := range a.M {
			w, ok := b.M[k]
			if !ok || !eq(v, w, seqInter) {
				return false
			}
		}
		return true
	case Set:
		if len(a.Mem) != len(b.Mem) {
			return false
		}
		for k := range a.Mem {
			if !b.Mem[k] {
				return false
			}
		}
		return true
	}
	return false
}

// Render is an independent printer (readable form, map/set entries sorted). Used for
// samples, hashing and as source text where a deterministic rendering is needed.
func Render(n *Node) string {
	var sb strings.Builder
	render(&sb, n)
	return sb.String()
}

// Quote renders a string literal in the quoted form accepted by the reader.
func Quote(s string) string {
	var sb strings.Builder
	sb.WriteByte('"')
	for _, r := range s {
		switch r {
		case '\\':
			sb.WriteString(`\\`)
		case '"':
			sb.WriteString(`\"`)
		case '\n':
			sb.WriteString(`\n`)
		default:
			sb.WriteRune(r)
		}
	}
	sb.WriteByte('"')
	return sb.String()
}

func render(sb *strings.Builder, n *Node) {
	switch n.K {
	case Nil:
		sb.WriteString("nil")
	case Bool:
		sb.WriteString(strconv.FormatBool(n.B))
	case Int:
		sb.WriteString(strconv.Itoa(n.I))
	case Str:
		sb.WriteString(Quote(n.S))
	case Kw:
		sb.WriteString(":" + n.S)
	case Sym:
		sb.WriteString(n.S)
	case List, Vec:
		o, c := "(", ")"
		if n.K == Vec {
			o, c = "[", "]"
		}
		sb.WriteString(o)
		for i, e := range n.L {
			if i > 0 {
				sb.WriteByte(' ')
			}
			render(sb, e)
		}
		sb.WriteString(c)
	case Map:
		keys := make([]string, 0, len(n.M))
		for k := range n.M {
			keys = append(keys, k)
		}
		sort.Strings(keys)
		sb.WriteString("{")
		for i, k := range keys {
			if i > 0 {
				sb.WriteByte(' ')
			}
			render(sb, KeyNode(k))
			sb.WriteByte(' ')
			render(sb, n.M[k])
		}
		sb.WriteString("}")
	case Set:
		keys := make([]string, 0, len(n.Mem))
		for k := range n.Mem {
			keys = append(keys, k)
		}
		sort.Strings(keys)
		sb.WriteString("#{")
		for i, k := range keys {
			if i > 0 {
				sb.WriteByte(' ')
			}
			render(sb, KeyNode(k))
		}
		sb.WriteString("}")
	case Opaque:
		fmt.Fprintf(sb, "#<%s>", n.S)
	}
}

// Depth returns the nesting depth.
func Depth(n *Node) int {
	d := 0
	switch n.K {
	case List, Vec:
		for _, e := range n.L {
			if x := Depth(e); x > d {
				d = x
			}
		}
		return d + 1
	case Map:
		for _, e := range n.M {
			if x := Depth(e); x > d {
				d = x
			}
		}
		return d + 1
	case Set:
		return 1
	}
	return 0
}

// Size returns the node count.
func Size(n *Node) int {
	s := 1
	switch n.K {
	case List, Vec:
		for _, e := range n.L {
			s += Size(e)
		}
	case Map:
		for _, e := range n.M {
			s += 1 + Size(e)
		}
	case Set:
		s += len(n.Mem)
	}
	return s
}

// Shape renders n with constants erased (skeleton), for distinct-shape counting.
func Shape(n *Node) string {
	var sb strings.Builder
	shape(&sb, n)
	return sb.String()
}

func shape(sb *strings.Builder, n *Node) {
	switch n.K {
	case List, Vec:
		if n.K == List {
			sb.WriteByte('(')
		} else {
			sb.WriteByte('[')
		}
		for i, e := range n.L {
			if i > 0 {
				sb.WriteByte(' ')
			}
			if i == 0 && e.K == Sym {
				sb.WriteString(e.S)
			} else {
				shape(sb, e)
			}
		}
		if n.K == List {
			sb.WriteByte(')')
		} else {
			sb.WriteByte(']')
		}
	case Map:
		fmt.Fprintf(sb, "{%d}", len(n.M))
	case Set:
		fmt.Fprintf(sb, "#{%d}", len(n.Mem))
	default:
		sb.WriteString(n.K.String()[:1])
	}
}

// Clone makes a deep copy.
func Clone(n *Node) *Node {
	c := *n
	if n.L != nil {
		c.L = make([]*Node, len(n.L))
		for i, e := range n.L {
			c.L[i] = Clone(e)
		}
	}
	if n.M != nil {
		c.M = make(map[string]*Node, len(n.M))
		for k, e := range n.M {
			c.M[k] = Clone(e)
		}
	}
	if n.Mem != nil {
		c.Mem = make(map[string]bool, len(n.Mem))
		for k := range n.Mem {
			c.Mem[k] = true
		}
	}
	return &c
}

// Truthy: only nil and false are falsy.
func Truthy(n *Node) bool { return !(n.K == Nil || (n.K == Bool && !n.B)) }
