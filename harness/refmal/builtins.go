package refmal

import (
	"fmt"

	"verifharness/canon"
	"verifharness/colmodel"
)

func berr(msg string) *Err { return &Err{Class: BuiltinErr, Msg: msg} }

// unspecified: outside the vocabulary's modelled domain; the case is discarded.
func unspecified(msg string) *Err { return &Err{Class: Malformed, Msg: "unspecified: " + msg} }

func hasOpaque(n *canon.Node) bool {
	switch n.K {
	case canon.Opaque:
		return true
	case canon.List, canon.Vec:
		for _, e := range n.L {
			if hasOpaque(e) {
				return true
			}
		}
	case canon.Map:
		for _, e := range n.M {
			if hasOpaque(e) {
				return true
			}
		}
	}
	return false
}

func isSeq(n *canon.Node) bool { return n.K == canon.List || n.K == canon.Vec }

func (it *Interp) def(name string, f BuiltinFn) {
	it.Root.Set(name, builtinNode(&Builtin{Name: name, Fn: f}))
}

func arith(name string, op func(a, b int) (int, bool)) BuiltinFn {
	return func(it *Interp, a []*canon.Node) (*canon.Node, *Err) {
		if len(a) != 2 {
			return nil, berr(name + " arity")
		}
		if a[0].K != canon.Int || a[1].K != canon.Int {
			return nil, berr(name + " type")
		}
		v, ok := op(a[0].I, a[1].I)
		if !ok {
			return nil, berr(name + " domain")
		}
		return canon.In(v), nil
	}
}

func cmp(name string, op func(a, b int) bool) BuiltinFn {
	return func(it *Interp, a []*canon.Node) (*canon.Node, *Err) {
		if len(a) != 2 {
			return nil, berr(name + " arity")
		}
		if a[0].K != canon.Int || a[1].K != canon.Int {
			return nil, berr(name + " type")
		}
		return canon.Bo(op(a[0].I, a[1].I)), nil
	}
}

func installBuiltins(it *Interp) {
	it.def("+", arith("+", func(a, b int) (int, bool) { return a + b, true }))
	it.def("-", arith("-", func(a, b int) (int, bool) { return a - b, true }))
	it.def("*", arith("*", func(a, b int) (int, bool) { return a * b, true }))
	it.def("/", arith("/", func(a, b int) (int, bool) {
		if b == 0 {
			return 0, false
		}
		return a / b, true
	}))
	it.def("<", cmp("<", func(a, b int) bool { return a < b }))
	it.def("<=", cmp("<=", func(a, b int) bool { return a <= b }))
	it.def(">", cmp(">", func(a, b int) bool { return a > b }))
	it.def(">=", cmp(">=", func(a, b int) bool { return a >= b }))
	it.def("=", func(it *Interp, a []*canon.Node) (*canon.Node, *Err) {
		if len(a) != 2 {
			return nil, berr("= arity")
		}
		if hasOpaque(a[0]) || hasOpaque(a[1]) {
			return nil, unspecified("= on functions")
		}
		return canon.Bo(canon.LispEqual(a[0], a[1])), nil
	})
	it.def("list", func(it *Interp, a []*canon.Node) (*canon.Node, *Err) { return canon.Li(a...), nil })
	it.def("vector", func(it *Interp, a []*canon.Node) (*canon.Node, *Err) { return canon.Ve(a...), nil })
	it.def("cons", func(it *Interp, a []*canon.Node) (*canon.Node, *Err) {
		if len(a) != 2 {
			return nil, berr("cons arity")
		}
		if !isSeq(a[1]) {
			if a[1].K == canon.Int || a[1].K == canon.Bool || a[1].K == canon.Sym || a[1].K == canon.Opaque {
				return nil, berr("cons type")
			}
			return nil, unspecified("cons onto nil/string/map/set")
		}
		return canon.Li(append([]*canon.Node{a[0]}, a[1].L...)...), nil
	})
	it.def("concat", func(it *Interp, a []*canon.Node) (*canon.Node, *Err) {
		out := []*canon.Node{}
		for _, s := range a {
			if !isSeq(s) {
				if s.K == canon.Int || s.K == canon.Bool || s.K == canon.Sym || s.K == canon.Opaque {
					return nil, berr("concat type")
				}
				return nil, unspecified("concat of nil/string/map/set")
			}
			out = append(out, s.L...)
		}
		return canon.Li(out...), nil
	})
	it.def("hash-map", func(it *Interp, a []*canon.Node) (*canon.Node, *Err) {
		if len(a) == 1 {
			return nil, unspecified("hash-map with one argument")
		}
		if len(a)%2 == 1 {
			return nil, berr("hash-map odd")
		}
		m := map[string]*canon.Node{}
		for i := 0; i < len(a); i += 2 {
			k, ok := canon.RawKey(a[i])
			if !ok {
				return nil, berr("hash-map key")
			}
			m[k] = a[i+1]
		}
		return canon.Ma(m), nil
	})
	it.def("conj", func(it *Interp, a []*canon.Node) (*canon.Node, *Err) {
		if len(a) < 2 {
			return nil, unspecified("conj with fewer than two arguments")
		}
		switch a[0].K {
		case canon.List:
			out := []*canon.Node{}
			for i := len(a) - 1; i >= 1; i-- {
				out = append(out, a[i])
			}
			return canon.Li(append(out, a[0].L...)...), nil
		case canon.Vec:
			return canon.Ve(append(append([]*canon.Node{}, a[0].L...), a[1:]...)...), nil
		case canon.Int, canon.Bool, canon.Sym, canon.Opaque:
			return nil, berr("conj type")
		}
		return nil, unspecified("conj onto map/set/nil/string")
	})
	it.def("first", func(it *Interp, a []*canon.Node) (*canon.Node, *Err) {
		if len(a) != 1 {
			return nil, berr("first arity")
		}
		if a[0].K == canon.Nil {
			return canon.N(), nil
		}
		if !isSeq(a[0]) {
			if a[0].K == canon.Str || a[0].K == canon.Kw || a[0].K == canon.Map || a[0].K == canon.Set {
				return nil, unspecified("first of string/map/set")
			}
			return nil, berr("first type")
		}
		if len(a[0].L) == 0 {
			return canon.N(), nil
		}
		return a[0].L[0], nil
	})
	it.def("rest", func(it *Interp, a []*canon.Node) (*canon.Node, *Err) {
		if len(a) != 1 {
			return nil, berr("rest arity")
		}
		if a[0].K == canon.Nil {
			return canon.Li(), nil
		}
		if !isSeq(a[0]) {
			if a[0].K == canon.Str || a[0].K == canon.Kw || a[0].K == canon.Map || a[0].K == canon.Set {
				return nil, unspecified("rest of string/map/set")
			}
			return nil, berr("rest type")
		}
		if len(a[0].L) == 0 {
			return canon.Li(), nil
		}
		return canon.Li(a[0].L[1:]...), nil
	})
	it.def("nth", func(it *Interp, a []*canon.Node) (*canon.Node, *Err) {
		if len(a) != 2 {
			return nil, berr("nth arity")
		}
		if !isSeq(a[0]) {
			if a[0].K == canon.Int || a[0].K == canon.Bool || a[0].K == canon.Sym || a[0].K == canon.Opaque {
				return nil, berr("nth type")
			}
			return nil, unspecified("nth of nil/string/map/set")
		}
		if a[1].K != canon.Int {
			return nil, berr("nth index type")
		}
		if a[1].I < 0 || a[1].I >= len(a[0].L) {
			return nil, berr("nth range")
		}
		return a[0].L[a[1].I], nil
	})
	it.def("count", func(it *Interp, a []*canon.Node) (*canon.Node, *Err) {
		if len(a) != 1 {
			return nil, berr("count arity")
		}
		switch a[0].K {
		case canon.Nil:
			return canon.In(0), nil
		case canon.List, canon.Vec:
			return canon.In(len(a[0].L)), nil
		case canon.Map:
			return canon.In(len(a[0].M)), nil
		case canon.Set:
			return canon.In(len(a[0].Mem)), nil
		case canon.Str, canon.Kw:
			return nil, unspecified("count of string")
		}
		return nil, berr("count type")
	})
	it.def("empty?", func(it *Interp, a []*canon.Node) (*canon.Node, *Err) {
		if len(a) != 1 {
			return nil, berr("empty? arity")
		}
		switch a[0].K {
		case canon.Nil:
			return canon.Bo(true), nil
		case canon.List, canon.Vec:
			return canon.Bo(len(a[0].L) == 0), nil
		case canon.Map:
			return canon.Bo(len(a[0].M) == 0), nil
		case canon.Set:
			return canon.Bo(len(a[0].Mem) == 0), nil
		case canon.Str, canon.Kw:
			return nil, unspecified("empty? of string")
		}
		return nil, berr("empty? type")
	})
	it.def("nil?", func(it *Interp, a []*canon.Node) (*canon.Node, *Err) {
		if len(a) != 1 {
			return nil, berr("nil? arity")
		}
		return canon.Bo(a[0].K == canon.Nil), nil
	})
	it.def("list?", func(it *Interp, a []*canon.Node) (*canon.Node, *Err) {
		if len(a) != 1 {
			return nil, berr("list? arity")
		}
		return canon.Bo(a[0].K == canon.List), nil
	})
	it.def("not", func(it *Interp, a []*canon.Node) (*canon.Node, *Err) {
		// 'not' is a lisp closure of one parameter in the real library: wrong count is a closure arity error
		if len(a) != 1 {
			return nil, &Err{Class: Arity}
		}
		return canon.Bo(!canon.Truthy(a[0])), nil
	})
	it.def("apply", func(it *Interp, a []*canon.Node) (*canon.Node, *Err) {
		if len(a) < 2 {
			return nil, berr("apply arity")
		}
		last := a[len(a)-1]
		if !isSeq(last) {
			if last.K == canon.Nil {
				return nil, unspecified("apply with nil")
			}
			return nil, berr("apply type")
		}
		args := append(append([]*canon.Node{}, a[1:len(a)-1]...), last.L...)
		if a[0].K != canon.Opaque {
			return nil, berr("apply of a non-function")
		}
		return it.applyFromBuiltin(a[0], args)
	})
	it.def("map", func(it *Interp, a []*canon.Node) (*canon.Node, *Err) {
		if len(a) != 2 {
			return nil, berr("map arity")
		}
		if !isSeq(a[1]) {
			if a[1].K == canon.Int || a[1].K == canon.Bool || a[1].K == canon.Sym || a[1].K == canon.Opaque {
				return nil, berr("map type")
			}
			return nil, unspecified("map over nil/string/map/set")
		}
		out := []*canon.Node{}
		for _, e := range a[1].L {
			if a[0].K != canon.Opaque {
				return nil, berr("map of a non-function")
			}
			v, err := it.applyFromBuiltin(a[0], []*canon.Node{e})
			if err != nil {
				return nil, err
			}
			out = append(out, v)
		}
		return canon.Li(out...), nil
	})
	it.def("trace!", func(it *Interp, a []*canon.Node) (*canon.Node, *Err) {
		if len(a) != 1 {
			return nil, berr("trace! arity")
		}
		it.Trace = append(it.Trace, a[0])
		return a[0], nil
	})
	it.def("throw", func(it *Interp, a []*canon.Node) (*canon.Node, *Err) {
		if len(a) != 1 {
			return nil, berr("throw arity")
		}
		if a[0].K == canon.Opaque && a[0].S == "error" {
			if e, ok := a[0].X.(*Err); ok {
				return nil, e // rethrow of a caught error object keeps its identity
			}
		}
		return nil, &Err{Class: Thrown, Thrown: a[0]}
	})
	// harness builtins that fail with Go errors / panic
	it.def("fail!", func(it *Interp, a []*canon.Node) (*canon.Node, *Err) {
		return nil, &Err{Class: BuiltinErr, Sentinel: "S1"}
	})
	it.def("fail2!", func(it *Interp, a []*canon.Node) (*canon.Node, *Err) {
		return nil, &Err{Class: BuiltinErr, Sentinel: "S2"}
	})
	it.def("panic-err!", func(it *Interp, a []*canon.Node) (*canon.Node, *Err) {
		return nil, &Err{Class: BuiltinErr, Sentinel: "S1"}
	})
	it.def("raw-panic-runtime!", func(it *Interp, a []*canon.Node) (*canon.Node, *Err) {
		return nil, &Err{Class: BuiltinErr}
	})
	it.def("raw-panic-err!", func(it *Interp, a []*canon.Node) (*canon.Node, *Err) {
		return nil, &Err{Class: BuiltinErr, Sentinel: "S1"}
	})
	it.def("raw-fail!", func(it *Interp, a []*canon.Node) (*canon.Node, *Err) {
		return nil, &Err{Class: BuiltinErr, Sentinel: "S1"}
	})
	it.def("panic-val!", func(it *Interp, a []*canon.Node) (*canon.Node, *Err) {
		if len(a) != 1 {
			return nil, berr("arity")
		}
		return nil, &Err{Class: Thrown, Thrown: a[0]}
	})
	it.def("inc", func(it *Interp, a []*canon.Node) (*canon.Node, *Err) {
		if len(a) != 1 {
			return nil, &Err{Class: Arity}
		}
		if a[0].K != canon.Int {
			return nil, berr("inc type")
		}
		return canon.In(a[0].I + 1), nil
	})
	it.def("dec", func(it *Interp, a []*canon.Node) (*canon.Node, *Err) {
		if len(a) != 1 {
			return nil, &Err{Class: Arity}
		}
		if a[0].K != canon.Int {
			return nil, berr("dec type")
		}
		return canon.In(a[0].I - 1), nil
	})
	it.def("identity", func(it *Interp, a []*canon.Node) (*canon.Node, *Err) {
		if len(a) != 1 {
			return nil, &Err{Class: Arity}
		}
		return a[0], nil
	})

	// the collection vocabulary comes from the independent collection model (colmodel): Value -> value, Error -> builtin
	// error, Unspecified -> the case is discarded; function arguments are adapted so that an error raised by the lisp
	// function travels through the builtin unchanged
	for _, name := range []string{"assoc", "dissoc", "get", "get-in", "assoc-in", "update", "update-in", "contains?", "merge", "vec", "seq", "take", "drop", "subvec", "hash-set", "set", "range", "vector?", "map?", "set?", "sequential?", "keyword?", "string?", "number?", "symbol?"} {
		name := name
		it.def(name, func(it *Interp, a []*canon.Node) (*canon.Node, *Err) {
			args := make([]*canon.Node, len(a))
			for i, x := range a {
				args[i] = x
				if x.K == canon.Opaque {
					switch x.X.(type) {
					case *Closure, *Builtin:
						f := x
						args[i] = colmodel.FnNode("lisp-fn", func(fa []*canon.Node) colmodel.Outcome {
							v, err := it.Apply(f, fa)
							if err != nil {
								return colmodel.Outcome{K: colmodel.Error, Why: "function failed", Payload: err}
							}
							return colmodel.Outcome{K: colmodel.Value, V: v}
						})
					}
				}
			}
			o := colmodel.Call(name, args)
			switch o.K {
			case colmodel.Value:
				if o.Unordered {
					return nil, unspecified(name + " result order")
				}
				return o.V, nil
			case colmodel.Error:
				if e, ok := o.Payload.(*Err); ok {
					return nil, e
				}
				return nil, berr(name + ": " + o.Why)
			}
			return nil, unspecified(name + ": " + o.Why)
		})
	}
	// metadata is not part of the value model: with-meta returns its first argument (functions stay what they are)
	it.def("with-meta", func(it *Interp, a []*canon.Node) (*canon.Node, *Err) {
		if len(a) != 2 {
			return nil, berr("with-meta arity")
		}
		switch a[0].K {
		case canon.List, canon.Vec, canon.Map, canon.Set:
			return a[0], nil
		case canon.Opaque:
			switch a[0].X.(type) {
			case *Closure, *Builtin:
				return a[0], nil
			}
		}
		return nil, berr("with-meta on a value without metadata")
	})
	// atoms (reference objects)
	it.def("atom", func(it *Interp, a []*canon.Node) (*canon.Node, *Err) {
		if len(a) != 1 {
			return nil, berr("atom arity")
		}
		return &canon.Node{K: canon.Opaque, S: "*concurrent.Atom", X: &AtomCell{V: a[0]}}, nil
	})
	it.def("deref", func(it *Interp, a []*canon.Node) (*canon.Node, *Err) {
		if len(a) != 1 {
			return nil, berr("deref arity")
		}
		if c, ok := a[0].X.(*AtomCell); ok && a[0].K == canon.Opaque {
			return c.V, nil
		}
		return nil, berr("deref of a non-reference")
	})
	it.def("reset!", func(it *Interp, a []*canon.Node) (*canon.Node, *Err) {
		if len(a) != 2 {
			return nil, berr("reset! arity")
		}
		c, ok := a[0].X.(*AtomCell)
		if !ok || a[0].K != canon.Opaque {
			return nil, berr("reset! of a non-atom")
		}
		c.V = a[1]
		return a[1], nil
	})
	it.def("swap!", func(it *Interp, a []*canon.Node) (*canon.Node, *Err) {
		if len(a) < 2 {
			return nil, berr("swap! arity")
		}
		c, ok := a[0].X.(*AtomCell)
		if !ok || a[0].K != canon.Opaque {
			return nil, berr("swap! of a non-atom")
		}
		v, err := it.applyFromBuiltin(a[1], append([]*canon.Node{c.V}, a[2:]...))
		if err != nil {
			return nil, err // a failing update leaves the atom unchanged
		}
		c.V = v
		return v, nil
	})
	// reduce is a lisp closure of three parameters in the real library
	it.def("reduce", func(it *Interp, a []*canon.Node) (*canon.Node, *Err) {
		if len(a) != 3 {
			return nil, &Err{Class: Arity}
		}
		if !isSeq(a[2]) {
			if a[2].K == canon.Nil {
				return a[1], nil
			}
			return nil, unspecified("reduce over a non-sequence")
		}
		acc := a[1]
		for _, x := range a[2].L {
			if a[0].K != canon.Opaque {
				return nil, &Err{Class: NotCallable}
			}
			switch a[0].X.(type) {
			case *Closure, *Builtin:
			default:
				return nil, &Err{Class: NotCallable}
			}
			v, err := it.Apply(a[0], []*canon.Node{acc, x})
			if err != nil {
				return nil, err
			}
			acc = v
		}
		return acc, nil
	})

	// library macros by their documented meaning (implemented natively)
	specials["cond"] = func(it *Interp, ast *canon.Node, env *Env) (*canon.Node, *Err) {
		xs := ast.L[1:]
		for len(xs) > 0 {
			if len(xs) == 1 {
				return nil, &Err{Class: Thrown, Thrown: canon.St("odd number of forms to cond")}
			}
			c, err := it.Eval(xs[0], env)
			if err != nil {
				return nil, err
			}
			if canon.Truthy(c) {
				return it.Eval(xs[1], env)
			}
			xs = xs[2:]
		}
		return canon.N(), nil
	}
	// and / or are documented by their expansion, which introduces a let scope per tested operand
	// (a def inside an operand therefore binds in that scope): mirror the expansion.
	specials["and"] = func(it *Interp, ast *canon.Node, env *Env) (*canon.Node, *Err) {
		xs := ast.L[1:]
		switch len(xs) {
		case 0:
			return canon.Bo(true), nil
		case 1:
			return it.Eval(xs[0], env)
		}
		it.gensym++
		g := canon.Sy(fmt.Sprintf("G__ref%d", it.gensym))
		rest := canon.Li(append([]*canon.Node{canon.Sy("and")}, xs[1:]...)...)
		return it.Eval(canon.Li(canon.Sy("let"), canon.Li(g, xs[0]), canon.Li(canon.Sy("if"), g, rest, g)), env)
	}
	specials["or"] = func(it *Interp, ast *canon.Node, env *Env) (*canon.Node, *Err) {
		xs := ast.L[1:]
		switch len(xs) {
		case 0:
			return canon.N(), nil
		case 1:
			return it.Eval(xs[0], env)
		}
		it.gensym++
		g := canon.Sy(fmt.Sprintf("G__ref%d", it.gensym))
		rest := canon.Li(append([]*canon.Node{canon.Sy("or")}, xs[1:]...)...)
		return it.Eval(canon.Li(canon.Sy("let"), canon.Li(g, xs[0]), canon.Li(canon.Sy("if"), g, g, rest)), env)
	}
	thread := func(first bool) special {
		return func(it *Interp, ast *canon.Node, env *Env) (*canon.Node, *Err) {
			if len(ast.L) < 2 {
				return nil, &Err{Class: Arity}
			}
			acc := ast.L[1]
			for _, form := range ast.L[2:] {
				if form.K == canon.List {
					if len(form.L) == 0 {
						return nil, unspecified("threading through ()")
					}
					var l []*canon.Node
					if first {
						l = append([]*canon.Node{form.L[0], acc}, form.L[1:]...)
					} else {
						l = append(append([]*canon.Node{}, form.L...), acc)
					}
					acc = canon.Li(l...)
				} else {
					acc = canon.Li(form, acc)
				}
			}
			return it.Eval(acc, env)
		}
	}
	specials["->"] = thread(true)
	specials["->>"] = thread(false)
}

// applyFromBuiltin applies a function value from inside a builtin (apply, map).
// A macro closure applied this way behaves as a function.
func (it *Interp) applyFromBuiltin(f *canon.Node, args []*canon.Node) (*canon.Node, *Err) {
	if f.K == canon.Opaque {
		switch f.X.(type) {
		case *Closure, *Builtin:
			return it.Apply(f, args)
		}
	}
	return nil, berr("apply/map of a non-function")
}
