// Package refmal is an independent reference interpreter for the core language
// (mal guide as amended by jig/lisp's README and the property statements C01, C03, C12).
// It shares no code with jig/lisp: ASTs and values are canon.Nodes, environments are
// linked maps, closures are Go structs. It is total: a step budget aborts long runs.
package refmal

import (
	"fmt"

	"verifharness/canon"
)

type Class string

const (
	None        Class = ""
	Unbound     Class = "unbound"
	NotCallable Class = "not-callable"
	Arity       Class = "arity"
	Thrown      Class = "thrown"
	BuiltinErr  Class = "builtin"
	Malformed   Class = "malformed" // ill-formed special form: outside the statements, case is discarded
	Budget      Class = "budget"    // step budget exhausted: case is discarded
)

// Err is an evaluation failure.
type Err struct {
	Class    Class
	Thrown   *canon.Node // Class == Thrown
	Sentinel string      // Go error identity for harness builtins ("S1", "S2"), else ""
	Sym      string      // Unbound
	Msg      string
}

func (e *Err) String() string {
	switch e.Class {
	case Thrown:
		return "thrown(" + canon.Render(e.Thrown) + ")"
	case Unbound:
		return "unbound(" + e.Sym + ")"
	}
	if e.Sentinel != "" {
		return string(e.Class) + "(" + e.Sentinel + ")"
	}
	return string(e.Class) + ":" + e.Msg
}

type Env struct {
	vars  map[string]*canon.Node
	outer *Env
}

func NewEnv(outer *Env) *Env { return &Env{vars: map[string]*canon.Node{}, outer: outer} }

func (e *Env) Get(k string) (*canon.Node, bool) {
	for x := e; x != nil; x = x.outer {
		if v, ok := x.vars[k]; ok {
			return v, true
		}
	}
	return nil, false
}
func (e *Env) Set(k string, v *canon.Node) { e.vars[k] = v }

// Own returns the bindings of this scope only.
func (e *Env) Own() map[string]*canon.Node { return e.vars }

type Closure struct {
	Params []string
	Rest   string // "" when no & parameter
	Body   []*canon.Node
	Env    *Env
	Macro  bool
}

// AtomCell is the payload of an atom value.
type AtomCell struct{ V *canon.Node }

type BuiltinFn func(it *Interp, args []*canon.Node) (*canon.Node, *Err)

type Builtin struct {
	Name string
	Fn   BuiltinFn
}

func fnNode(c *Closure) *canon.Node {
	l := "fn"
	if c.Macro {
		l = "macro"
	}
	return &canon.Node{K: canon.Opaque, S: l, X: c}
}

func builtinNode(b *Builtin) *canon.Node { return &canon.Node{K: canon.Opaque, S: "builtin", X: b} }

func errNode(e *Err) *canon.Node { return &canon.Node{K: canon.Opaque, S: "error", X: e} }

type Interp struct {
	Trace  []*canon.Node
	Steps  int
	Budget int
	Root   *Env
	// counters for evidence
	ClosureCallsAfterScopeReturn int
	MaxDepth                     int
	depth                        int
	FinallyRuns                  int
	MacroExpansions              int
	gensym                       int
	UnboundSeen                  map[string]bool // every symbol whose lookup failed during the run (also inside try)
}

func New(budget int) *Interp {
	it := &Interp{Budget: budget}
	it.Root = NewEnv(nil)
	installBuiltins(it)
	return it
}

func malformed(f string, a ...any) *Err { return &Err{Class: Malformed, Msg: fmt.Sprintf(f, a...)} }

func isSym(n *canon.Node, s string) bool { return n.K == canon.Sym && n.S == s }

func headIs(n *canon.Node, s string) bool {
	return n.K == canon.List && len(n.L) > 0 && isSym(n.L[0], s)
}

func (it *Interp) tick() *Err {
	it.Steps++
	if it.Steps > it.Budget {
		return &Err{Class: Budget}
	}
	return nil
}

// Eval evaluates ast in env.
func (it *Interp) Eval(ast *canon.Node, env *Env) (*canon.Node, *Err) {
	it.depth++
	if it.depth > it.MaxDepth {
		it.MaxDepth = it.depth
	}
	defer func() { it.depth-- }()
	if it.depth > 400 {
		return nil, &Err{Class: Budget, Msg: "depth"}
	}
	if e := it.tick(); e != nil {
		return nil, e
	}
	switch ast.K {
	case canon.Sym:
		v, ok := env.Get(ast.S)
		if !ok {
			if it.UnboundSeen == nil {
				it.UnboundSeen = map[string]bool{}
			}
			it.UnboundSeen[ast.S] = true
			return nil, &Err{Class: Unbound, Sym: ast.S}
		}
		return v, nil
	case canon.Vec:
		out := make([]*canon.Node, 0, len(ast.L))
		for _, e := range ast.L {
			v, err := it.Eval(e, env)
			if err != nil {
				return nil, err
			}
			out = append(out, v)
		}
		return canon.Ve(out...), nil
	case canon.Map:
		// the language definition leaves the order of map-literal values open: generators keep
		// at most one effectful expression per map literal
		m := make(map[string]*canon.Node, len(ast.M))
		for k, e := range ast.M {
			v, err := it.Eval(e, env)
			if err != nil {
				return nil, err
			}
			m[k] = v
		}
		return canon.Ma(m), nil
	case canon.List:
	default:
		return ast, nil
	}
	// macro expansion
	ast, err := it.Macroexpand(ast, env)
	if err != nil {
		return nil, err
	}
	if ast.K != canon.List {
		return it.Eval(ast, env)
	}
	if len(ast.L) == 0 {
		return ast, nil
	}
	if ast.L[0].K == canon.Sym {
		if f, ok := specials[ast.L[0].S]; ok {
			// cond, and, or, -> and ->> are library macros, modelled natively: like every macro they are bindings of
			// the outermost scope, and a local (or a later global definition) of that name wins over them
			if _, bound := env.Get(ast.L[0].S); !(bound && libMacroNames[ast.L[0].S]) {
				return f(it, ast, env)
			}
		}
	}
	// application: head first, then arguments left to right, exactly once
	fv, err := it.Eval(ast.L[0], env)
	if err != nil {
		return nil, err
	}
	args := make([]*canon.Node, 0, len(ast.L)-1)
	for _, a := range ast.L[1:] {
		v, err := it.Eval(a, env)
		if err != nil {
			return nil, err
		}
		args = append(args, v)
	}
	return it.Apply(fv, args)
}

// Apply calls a function value with evaluated arguments.
func (it *Interp) Apply(fv *canon.Node, args []*canon.Node) (*canon.Node, *Err) {
	if fv.K != canon.Opaque {
		return nil, &Err{Class: NotCallable}
	}
	switch f := fv.X.(type) {
	case *Closure:
		env := NewEnv(f.Env)
		if f.Rest == "" {
			if len(args) < len(f.Params) {
				return nil, &Err{Class: Arity, Msg: "too few"}
			}
			if len(args) > len(f.Params) {
				return nil, &Err{Class: Arity, Msg: "too many"}
			}
		} else if len(args) < len(f.Params) {
			return nil, &Err{Class: Arity, Msg: "too few"}
		}
		for i, p := range f.Params {
			env.Set(p, args[i])
		}
		if f.Rest != "" {
			env.Set(f.Rest, canon.Li(args[len(f.Params):]...))
		}
		return it.evalBody(f.Body, env)
	case *Builtin:
		if e := it.tick(); e != nil {
			return nil, e
		}
		return f.Fn(it, args)
	}
	return nil, &Err{Class: NotCallable}
}

// evalBody evaluates forms in order and returns the last value (nil when empty).
func (it *Interp) evalBody(forms []*canon.Node, env *Env) (*canon.Node, *Err) {
	var last *canon.Node = canon.N()
	for _, f := range forms {
		v, err := it.Eval(f, env)
		if err != nil {
			return nil, err
		}
		last = v
	}
	return last, nil
}

func (it *Interp) isMacroCall(ast *canon.Node, env *Env) (*Closure, bool) {
	if ast.K != canon.List || len(ast.L) == 0 || ast.L[0].K != canon.Sym {
		return nil, false
	}
	v, ok := env.Get(ast.L[0].S)
	if !ok || v.K != canon.Opaque {
		return nil, false
	}
	c, ok := v.X.(*Closure)
	if !ok || !c.Macro {
		return nil, false
	}
	return c, true
}

// Macroexpand applies macros until the head is no longer a macro in env.
func (it *Interp) Macroexpand(ast *canon.Node, env *Env) (*canon.Node, *Err) {
	for {
		c, ok := it.isMacroCall(ast, env)
		if !ok {
			return ast, nil
		}
		it.MacroExpansions++
		if e := it.tick(); e != nil {
			return nil, e
		}
		nc := *c
		out, err := it.Apply(fnNode(&nc), ast.L[1:])
		if err != nil {
			return nil, err
		}
		ast = out
	}
}

type special func(it *Interp, ast *canon.Node, env *Env) (*canon.Node, *Err)

// libMacroNames: the specials that stand for library macros (shadowable), as opposed to the special forms proper.
var libMacroNames = map[string]bool{"cond": true, "and": true, "or": true, "->": true, "->>": true}

var specials map[string]special

func init() {
	specials = map[string]special{
		"def": func(it *Interp, ast *canon.Node, env *Env) (*canon.Node, *Err) {
			if len(ast.L) != 3 || ast.L[1].K != canon.Sym {
				return nil, malformed("def")
			}
			v, err := it.Eval(ast.L[2], env)
			if err != nil {
				return nil, err
			}
			env.Set(ast.L[1].S, v)
			return v, nil
		},
		"let": func(it *Interp, ast *canon.Node, env *Env) (*canon.Node, *Err) {
			if len(ast.L) < 2 || (ast.L[1].K != canon.List && ast.L[1].K != canon.Vec) || len(ast.L[1].L)%2 != 0 {
				return nil, malformed("let")
			}
			le := NewEnv(env)
			b := ast.L[1].L
			for i := 0; i < len(b); i += 2 {
				if b[i].K != canon.Sym {
					return nil, malformed("let binding")
				}
			}
			for i := 0; i < len(b); i += 2 {
				v, err := it.Eval(b[i+1], le) // sequential: earlier bindings visible
				if err != nil {
					return nil, err
				}
				le.Set(b[i].S, v)
			}
			return it.evalBody(ast.L[2:], le)
		},
		"quote": func(it *Interp, ast *canon.Node, env *Env) (*canon.Node, *Err) {
			if len(ast.L) != 2 {
				return nil, malformed("quote")
			}
			return ast.L[1], nil
		},
		"quasiquote": func(it *Interp, ast *canon.Node, env *Env) (*canon.Node, *Err) {
			if len(ast.L) != 2 {
				return nil, malformed("quasiquote")
			}
			return it.qq(ast.L[1], env)
		},
		"defmacro": func(it *Interp, ast *canon.Node, env *Env) (*canon.Node, *Err) {
			if len(ast.L) != 3 || ast.L[1].K != canon.Sym {
				return nil, malformed("defmacro")
			}
			v, err := it.Eval(ast.L[2], env)
			if err != nil {
				return nil, err
			}
			c, ok := v.X.(*Closure)
			if v.K != canon.Opaque || !ok {
				return nil, malformed("defmacro of a non-function")
			}
			nc := *c
			nc.Macro = true
			m := fnNode(&nc)
			env.Set(ast.L[1].S, m)
			return m, nil
		},
		"macroexpand": func(it *Interp, ast *canon.Node, env *Env) (*canon.Node, *Err) {
			if len(ast.L) != 2 {
				return nil, malformed("macroexpand")
			}
			return it.Macroexpand(ast.L[1], env)
		},
		"do": func(it *Interp, ast *canon.Node, env *Env) (*canon.Node, *Err) {
			return it.evalBody(ast.L[1:], env)
		},
		"if": func(it *Interp, ast *canon.Node, env *Env) (*canon.Node, *Err) {
			if len(ast.L) != 3 && len(ast.L) != 4 {
				return nil, malformed("if")
			}
			c, err := it.Eval(ast.L[1], env)
			if err != nil {
				return nil, err
			}
			if canon.Truthy(c) {
				return it.Eval(ast.L[2], env)
			}
			if len(ast.L) == 4 {
				return it.Eval(ast.L[3], env)
			}
			return canon.N(), nil
		},
		"fn": func(it *Interp, ast *canon.Node, env *Env) (*canon.Node, *Err) {
			if len(ast.L) < 2 || (ast.L[1].K != canon.List && ast.L[1].K != canon.Vec) {
				return nil, malformed("fn")
			}
			c := &Closure{Env: env, Body: ast.L[2:]}
			ps := ast.L[1].L
			for i := 0; i < len(ps); i++ {
				if ps[i].K != canon.Sym {
					return nil, malformed("fn parameter")
				}
				if ps[i].S == "&" {
					if i != len(ps)-2 || ps[i+1].K != canon.Sym || ps[i+1].S == "&" {
						return nil, malformed("fn & parameter")
					}
					c.Rest = ps[i+1].S
					break
				}
				c.Params = append(c.Params, ps[i].S)
			}
			return fnNode(c), nil
		},
		"try": evalTry,
	}
}

// qq implements quasiquote as template substitution (left to right).
func (it *Interp) qq(t *canon.Node, env *Env) (*canon.Node, *Err) {
	switch t.K {
	case canon.List:
		if headIs(t, "unquote") {
			if len(t.L) < 2 {
				return nil, malformed("unquote without operand")
			}
			return it.Eval(t.L[1], env)
		}
		l, err := it.qqSeq(t.L, env)
		if err != nil {
			return nil, err
		}
		return canon.Li(l...), nil
	case canon.Vec:
		l, err := it.qqSeq(t.L, env)
		if err != nil {
			return nil, err
		}
		return canon.Ve(l...), nil
	default:
		return t, nil // maps, sets, symbols, scalars: literally
	}
}

func (it *Interp) qqSeq(elts []*canon.Node, env *Env) ([]*canon.Node, *Err) {
	out := []*canon.Node{}
	for _, e := range elts {
		if headIs(e, "splice-unquote") {
			if len(e.L) < 2 {
				return nil, malformed("splice-unquote without operand")
			}
			v, err := it.Eval(e.L[1], env)
			if err != nil {
				return nil, err
			}
			if v.K != canon.List && v.K != canon.Vec {
				// the statement speaks of "the elements of its value": a non-sequence is outside it
				return nil, malformed("splice of a non-sequence")
			}
			out = append(out, v.L...)
			continue
		}
		v, err := it.qq(e, env)
		if err != nil {
			return nil, err
		}
		out = append(out, v)
	}
	return out, nil
}

// evalTry: (try body… [(catch sym handler…)] [(finally form…)])
func evalTry(it *Interp, ast *canon.Node, env *Env) (*canon.Node, *Err) {
	forms := ast.L[1:]
	var catchF, finallyF *canon.Node
	if n := len(forms); n > 0 && headIs(forms[n-1], "finally") {
		finallyF = forms[n-1]
		forms = forms[:n-1]
	}
	if n := len(forms); n > 0 && headIs(forms[n-1], "catch") {
		catchF = forms[n-1]
		forms = forms[:n-1]
	}
	if catchF != nil && (len(catchF.L) < 3 || catchF.L[1].K != canon.Sym) {
		return nil, malformed("catch")
	}
	for _, f := range forms {
		if headIs(f, "catch") || headIs(f, "finally") {
			return nil, malformed("catch/finally not in final position")
		}
	}
	res, err := it.evalBody(forms, env)
	if err != nil && (err.Class == Budget || err.Class == Malformed) {
		return nil, err
	}
	if err != nil && catchF != nil {
		he := NewEnv(env)
		he.Set(catchF.L[1].S, caughtValue(err))
		res, err = it.evalBody(catchF.L[2:], he)
		if err != nil && (err.Class == Budget || err.Class == Malformed) {
			return nil, err
		}
	}
	if finallyF != nil {
		it.FinallyRuns++
		_, ferr := it.evalBody(finallyF.L[1:], env) // in the try's own scope; outcome ignored
		if ferr != nil && (ferr.Class == Budget || ferr.Class == Malformed) {
			return nil, ferr
		}
	}
	return res, err
}

// caughtValue is what a catch variable is bound to: the thrown lisp value, or an opaque error object.
func caughtValue(e *Err) *canon.Node {
	if e.Class == Thrown {
		return e.Thrown
	}
	return errNode(e)
}
